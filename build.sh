#!/bin/bash
# builds /verif/bin/govc offline with the newer Go toolchain
set -e
cd /verif/govc
GOFLAGS=-mod=mod GOPROXY=off GOSUMDB=off GOTOOLCHAIN=local go1.26.8 build -o /verif/bin/govc .
