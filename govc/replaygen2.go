package main

// Counterexample replay on the real code (DESIGN §2.8, §12.8).
//
// A `sat` answer for an obligation of unit U comes with a model of U's entry state: the parameters and every heap cell
// the function can reach. This file turns that model into an in-package Go test, injected with `go test -overlay`
// (nothing is written into the repository), which
//   1. rebuilds the entry state as real Go values (objects, slices, maps, netip addresses, times) — twice, so that
//      old(e) can be evaluated on an untouched copy;
//   2. calls the real function;
//   3. decides the violated obligation on the real post-state: for a no-panic obligation the run must panic with a
//      stack that passes through the obligation's source line; for a postcondition the clause, compiled to Go
//      (forall/exists become loops, old(e) reads the untouched copy, spec functions are the same Go functions the
//      verifier translated), must evaluate to false.
// Only then is the violation reported as confirmed (no `no-failing-input-found` suffix). Everything else — the model
// needs an interface stub, a clause talks about ghost state, the real run does not fail — is reported as not replayed,
// with the reason, and the VIOLATION line keeps the suffix.

import (
	"bufio"
	"encoding/json"
	"fmt"
	"go/ast"
	"go/token"
	"go/types"
	"io"
	"math/big"
	"os"
	"os/exec"
	"path/filepath"
	"regexp"
	"sort"
	"strconv"
	"strings"
	"time"

	"golang.org/x/tools/go/ssa"
)

// ---------------------------------------------------------------- solver session

type smtSession struct {
	cmd *exec.Cmd
	in  io.WriteCloser
	out *bufio.Reader
	n   int
	cache map[string]string
}

func startSession(bin string, query string, extra []string) (*smtSession, string) {
	cmd := exec.Command(bin, "-in", "-smt2")
	in, _ := cmd.StdinPipe()
	outp, _ := cmd.StdoutPipe()
	cmd.Stderr = nil
	if err := cmd.Start(); err != nil {
		return nil, "error"
	}
	s := &smtSession{cmd: cmd, in: in, out: bufio.NewReaderSize(outp, 1<<20), cache: map[string]string{}}
	io.WriteString(in, "(set-option :produce-models true)\n(set-option :timeout 20000)\n")
	io.WriteString(in, query)
	for _, e := range extra {
		io.WriteString(in, "(assert "+e+")\n")
	}
	io.WriteString(in, "(check-sat)\n")
	st := s.readSexpOrWord()
	return s, strings.TrimSpace(st)
}

func (s *smtSession) close() {
	if s == nil {
		return
	}
	s.in.Close()
	done := make(chan struct{})
	go func() { s.cmd.Wait(); close(done) }()
	select {
	case <-done:
	case <-time.After(2 * time.Second):
		s.cmd.Process.Kill()
	}
}

// readSexpOrWord reads one answer: a bare word (sat) or a balanced s-expression.
func (s *smtSession) readSexpOrWord() string {
	var b strings.Builder
	depth := 0
	started := false
	deadline := time.Now().Add(40 * time.Second)
	for time.Now().Before(deadline) {
		c, err := s.out.ReadByte()
		if err != nil {
			break
		}
		if !started {
			if c == ' ' || c == '\n' || c == '\t' || c == '\r' {
				continue
			}
			started = true
		}
		b.WriteByte(c)
		if c == '(' {
			depth++
		} else if c == ')' {
			depth--
			if depth == 0 {
				break
			}
		} else if depth == 0 && (c == '\n') {
			break
		}
	}
	return b.String()
}

// value evaluates a term in the model and returns the printed value.
func (s *smtSession) value(term string) string {
	if v, ok := s.cache[term]; ok {
		return v
	}
	io.WriteString(s.in, "(get-value ("+term+"))\n")
	r := strings.TrimSpace(s.readSexpOrWord())
	// ((term value))
	v := ""
	if _, args, ok := splitSexp(r); ok || strings.HasPrefix(r, "((") {
		inner := strings.TrimSpace(r[1 : len(r)-1])
		// inner = (term value): the value is the last top-level token
		if op, a2, ok2 := splitSexp(inner); ok2 {
			_ = op
			if len(a2) > 0 {
				v = a2[len(a2)-1]
			}
		}
		_ = args
	}
	s.cache[term] = v
	return v
}

func parseSMTInt(v string) (*big.Int, bool) {
	v = strings.TrimSpace(v)
	if strings.HasPrefix(v, "(-") {
		_, a, ok := splitSexp(v)
		if !ok || len(a) != 1 {
			return nil, false
		}
		n, ok := new(big.Int).SetString(strings.TrimSpace(a[0]), 10)
		if !ok {
			return nil, false
		}
		return n.Neg(n), true
	}
	n, ok := new(big.Int).SetString(v, 10)
	return n, ok
}

func parseSMTReal(v string) (*big.Rat, bool) {
	v = strings.TrimSpace(v)
	if op, a, ok := splitSexp(v); ok {
		switch {
		case op == "-" && len(a) == 1:
			r, ok := parseSMTReal(a[0])
			if !ok {
				return nil, false
			}
			return r.Neg(r), true
		case op == "/" && len(a) == 2:
			x, ok1 := parseSMTReal(a[0])
			y, ok2 := parseSMTReal(a[1])
			if !ok1 || !ok2 || y.Sign() == 0 {
				return nil, false
			}
			return x.Quo(x, y), true
		}
		return nil, false
	}
	r, ok := new(big.Rat).SetString(v)
	return r, ok
}

// ---------------------------------------------------------------- entry-state reconstruction

type rgen struct {
	w     *World
	ex    *Exec
	s     *smtSession
	pkg   *types.Package
	imps  map[string]string // import path → local name
	decls []string          // statements allocating objects / arrays
	fills []string          // statements assigning fields / elements
	objs  map[string]string // typeKey|ref → variable
	arrs  map[string]*rarr  // elemTypeKey|ref → backing array
	maps  map[string]string
	queue []func()
	n     int
	cells int
	fail  string
	strs  map[string]string // abstract Str value → Go literal
	clock0 *big.Int
	notes []string
}

type rarr struct {
	name   string
	elem   types.Type
	lo, hi int64 // absolute index range used by the slices over this backing array (offsets in a model are arbitrary)
	used   bool
	done   map[int64]bool
}

func (g *rgen) giveup(why string) {
	if g.fail == "" {
		g.fail = why
	}
}

func (g *rgen) fresh(p string) string {
	g.n++
	return fmt.Sprintf("%s%d", p, g.n)
}

func (g *rgen) qual(p *types.Package) string {
	if p == g.pkg {
		return ""
	}
	if n, ok := g.imps[p.Path()]; ok {
		return n
	}
	n := p.Name()
	for _, used := range g.imps {
		if used == n {
			n = n + strconv.Itoa(len(g.imps))
		}
	}
	g.imps[p.Path()] = n
	return n
}

// typeExpr renders a type for use in the generated test; gives up on unexported foreign types.
func (g *rgen) typeExpr(t types.Type) string {
	bad := false
	var visit func(t types.Type)
	seen := map[types.Type]bool{}
	visit = func(t types.Type) {
		if seen[t] {
			return
		}
		seen[t] = true
		switch x := types.Unalias(t).(type) {
		case *types.Named:
			if o := x.Obj(); o.Pkg() != nil && o.Pkg() != g.pkg && !o.Exported() {
				bad = true
			}
			if ta := x.TypeArgs(); ta != nil {
				for i := 0; i < ta.Len(); i++ {
					visit(ta.At(i))
				}
			}
		case *types.Pointer:
			visit(x.Elem())
		case *types.Slice:
			visit(x.Elem())
		case *types.Array:
			visit(x.Elem())
		case *types.Map:
			visit(x.Key())
			visit(x.Elem())
		case *types.TypeParam:
			bad = true
		}
	}
	visit(t)
	if bad {
		g.giveup("type not nameable from the test package: " + t.String())
		return "any"
	}
	return types.TypeString(t, g.qual)
}

func (g *rgen) h0(key string) (string, bool) {
	n := "H0!" + sanitize(key)
	_, ok := g.ex.declared[n]
	return n, ok
}

func (g *rgen) intOf(term string) (*big.Int, bool) {
	return parseSMTInt(g.s.value(term))
}

// expr returns a Go expression denoting the value with the given leaf terms.
func (g *rgen) expr(t types.Type, L []string) string {
	if g.fail != "" {
		return "nil"
	}
	g.cells++
	if g.cells > 20000 {
		g.giveup("model too large to materialise")
		return "nil"
	}
	if ml, ok := modelLeaves(t); ok {
		return g.modelExpr(t, ml, L)
	}
	switch u := t.Underlying().(type) {
	case *types.Basic:
		v := g.s.value(L[0])
		switch {
		case u.Info()&types.IsBoolean != 0:
			if v == "true" || v == "false" {
				return g.conv(t, v)
			}
			g.giveup("bool value " + v)
		case u.Info()&types.IsInteger != 0:
			n, ok := parseSMTInt(v)
			if !ok {
				g.giveup("int value " + v)
				return "0"
			}
			if lo, hi, ok := intRange(t); ok {
				l, _ := parseSMTInt(lo)
				h, _ := parseSMTInt(hi)
				if n.Cmp(l) < 0 || n.Cmp(h) > 0 {
					g.giveup("integer outside its Go type in the model (int/int64 are mathematical in the VC): " + n.String())
					return "0"
				}
			}
			return g.conv(t, n.String())
		case u.Info()&types.IsFloat != 0:
			r, ok := parseSMTReal(v)
			if !ok {
				g.giveup("real value " + v)
				return "0"
			}
			f, _ := r.Float64()
			return g.conv(t, strconv.FormatFloat(f, 'g', -1, 64))
		case u.Info()&types.IsString != 0:
			return g.conv(t, g.strLit(v))
		case u.Kind() == types.UnsafePointer:
			return "nil"
		}
		g.giveup("basic type " + t.String())
		return "nil"
	case *types.Pointer:
		return g.ptrExpr(t, u, L[0])
	case *types.Slice:
		return g.sliceExpr(t, u, L)
	case *types.Map:
		return g.mapExpr(t, u, L[0])
	case *types.Struct:
		return g.structLit(t, u, L)
	case *types.Interface:
		return g.ifaceExpr(t, L)
	case *types.Signature, *types.Chan:
		n, ok := g.intOf(L[0])
		if ok && n.Sign() == 0 {
			return "nil"
		}
		g.giveup("function or channel value in the entry state: " + t.String())
		return "nil"
	case *types.Array:
		return g.typeExpr(t) + "{}"
	}
	g.giveup("type " + t.String())
	return "nil"
}

func (g *rgen) conv(t types.Type, lit string) string {
	if b, ok := types.Unalias(t).(*types.Basic); ok {
		switch b.Kind() {
		case types.Int, types.Bool, types.String, types.Float64, types.UntypedInt, types.UntypedBool:
			if b.Kind() == types.Float64 && !strings.ContainsAny(lit, ".e") {
				return "float64(" + lit + ")"
			}
			return lit
		}
	}
	return g.typeExpr(t) + "(" + lit + ")"
}

func (g *rgen) strLit(v string) string {
	if g.strs == nil {
		g.strs = map[string]string{}
		for name, text := range g.ex.strLits {
			g.strs[g.s.value(name)] = strconv.Quote(text)
		}
		g.strs[g.s.value("str_empty")] = `""`
	}
	if l, ok := g.strs[v]; ok {
		return l
	}
	l := strconv.Quote(fmt.Sprintf("s%d", len(g.strs)))
	g.strs[v] = l
	g.notes = append(g.notes, "a string the model leaves abstract is given the arbitrary text "+l)
	return l
}

func (g *rgen) modelExpr(t types.Type, ml []Leaf, L []string) string {
	n := types.Unalias(t).(*types.Named)
	switch n.Obj().Pkg().Path() + "." + n.Obj().Name() {
	case "time.Time":
		v, ok := g.intOf(L[0])
		if !ok {
			g.giveup("time value")
			return "time.Time{}"
		}
		g.qual(n.Obj().Pkg())
		if v.Sign() == 0 {
			return "time.Time{}"
		}
		d := new(big.Int).Sub(v, g.clock0)
		if !d.IsInt64() {
			g.giveup("time far from the clock")
			return "time.Time{}"
		}
		return fmt.Sprintf("replayT0.Add(time.Duration(%d))", d.Int64())
	case "net/netip.Addr":
		return g.addrExpr(n.Obj().Pkg(), L)
	case "net/netip.AddrPort":
		a := g.addrExpr(n.Obj().Pkg(), L[:3])
		p, ok := g.intOf(L[3])
		if !ok {
			g.giveup("port")
			return "netip.AddrPort{}"
		}
		return fmt.Sprintf("%s.AddrPortFrom(%s, %s)", g.qual(n.Obj().Pkg()), a, p.String())
	case "sync.Mutex", "sync.RWMutex", "sync.WaitGroup", "sync.Once", "golang.org/x/sync/errgroup.Group", "sync.noCopy":
		return g.typeExpr(t) + "{}"
	}
	// atomics and the rest are filled by assignment where addressable; as a value: zero
	return g.typeExpr(t) + "{}"
}

func (g *rgen) addrExpr(pkg *types.Package, L []string) string {
	q := g.qual(pkg)
	hi, ok1 := g.intOf(L[0])
	lo, ok2 := g.intOf(L[1])
	z, ok3 := g.intOf(L[2])
	if !ok1 || !ok2 || !ok3 {
		g.giveup("address value")
		return q + ".Addr{}"
	}
	switch {
	case z.Sign() == 0:
		return q + ".Addr{}"
	case z.Int64() == 4:
		v := new(big.Int).And(lo, big.NewInt(0xffffffff)).Uint64()
		return fmt.Sprintf("%s.AddrFrom4([4]byte{%d, %d, %d, %d})", q, byte(v>>24), byte(v>>16), byte(v>>8), byte(v))
	default:
		var bs []string
		for i := 7; i >= 0; i-- {
			bs = append(bs, strconv.Itoa(int(new(big.Int).Rsh(hi, uint(8*i)).Uint64()&0xff)))
		}
		for i := 7; i >= 0; i-- {
			bs = append(bs, strconv.Itoa(int(new(big.Int).Rsh(lo, uint(8*i)).Uint64()&0xff)))
		}
		e := fmt.Sprintf("%s.AddrFrom16([16]byte{%s})", q, strings.Join(bs, ", "))
		if z.Int64() != 6 {
			e += fmt.Sprintf(".WithZone(\"z%d\")", z.Int64())
		}
		return e
	}
}

func (g *rgen) ptrExpr(t types.Type, pt *types.Pointer, term string) string {
	r, ok := g.intOf(term)
	if !ok {
		g.giveup("pointer value")
		return "nil"
	}
	if r.Sign() == 0 {
		return "nil"
	}
	el := pt.Elem()
	key := typeKey(el) + "|" + r.String()
	if v, ok := g.objs[key]; ok {
		return v
	}
	te := g.typeExpr(el)
	v := g.fresh("o")
	g.objs[key] = v
	g.decls = append(g.decls, fmt.Sprintf("%s := new(%s)", v, te))
	g.decls = append(g.decls, fmt.Sprintf("e.objs = append(e.objs, %s)", v))
	ref := r.String()
	if _, isArr := el.Underlying().(*types.Array); isArr {
		g.notes = append(g.notes, "array object left zero: "+el.String())
		return v
	}
	g.queue = append(g.queue, func() {
		kind := "C"
		if isStructType(el) {
			kind = "F"
		}
		ls := leaves(el)
		terms := make([]string, len(ls))
		for i, l := range ls {
			hk, ok := g.h0(kind + "|" + typeKey(el) + "|" + l.Name)
			if !ok {
				terms[i] = zeroLeaf(l)
			} else {
				terms[i] = sel(hk, ref)
			}
		}
		g.assign("(*"+v+")", el, terms)
	})
	return v
}

// assign emits statements that set the addressable location lhs (of type t) to the value with leaf terms L.
func (g *rgen) assign(lhs string, t types.Type, L []string) {
	if g.fail != "" {
		return
	}
	if ml, ok := modelLeaves(t); ok {
		n := types.Unalias(t).(*types.Named)
		full := n.Obj().Pkg().Path() + "." + n.Obj().Name()
		switch {
		case strings.HasPrefix(full, "sync/atomic."):
			v := g.s.value(L[0])
			if full == "sync/atomic.Bool" {
				g.fills = append(g.fills, fmt.Sprintf("%s.Store(%s)", lhs, v))
			} else if iv, ok := parseSMTInt(v); ok {
				g.fills = append(g.fills, fmt.Sprintf("%s.Store(%s)", lhs, iv.String()))
			}
			return
		case full == "sync.Mutex" || full == "sync.RWMutex":
			if g.s.value(L[0]) == "true" {
				g.fills = append(g.fills, lhs+".Lock()")
			}
			return
		case len(ml) == 0:
			return
		}
		g.fills = append(g.fills, fmt.Sprintf("%s = %s", lhs, g.modelExpr(t, ml, L)))
		return
	}
	if st, ok := t.Underlying().(*types.Struct); ok {
		for i := 0; i < st.NumFields(); i++ {
			f := st.Field(i)
			lo, hi := fieldRange(t, i)
			if f.Name() == "_" {
				continue
			}
			if !f.Exported() && f.Pkg() != g.pkg {
				if hi > lo {
					g.notes = append(g.notes, "unexported field of another package not set: "+f.Pkg().Name()+"."+f.Name())
				}
				continue
			}
			g.assign(lhs+"."+f.Name(), f.Type(), L[lo:hi])
		}
		return
	}
	e := g.expr(t, L)
	if g.fail != "" {
		return
	}
	g.fills = append(g.fills, fmt.Sprintf("%s = %s", lhs, e))
}

func (g *rgen) structLit(t types.Type, st *types.Struct, L []string) string {
	// a struct value in expression position: build it in a temporary
	v := g.fresh("sv")
	g.decls = append(g.decls, fmt.Sprintf("var %s %s", v, g.typeExpr(t)))
	LL := append([]string{}, L...)
	g.queue = append(g.queue, func() { g.assign(v, t, LL) })
	g.notes = append(g.notes, "struct value materialised through a temporary (filled before the call)")
	return v
}

func (g *rgen) sliceExpr(t types.Type, sl *types.Slice, L []string) string {
	arr, ok0 := g.intOf(L[0])
	off, ok1 := g.intOf(L[1])
	ln, ok2 := g.intOf(L[2])
	if !ok0 || !ok1 || !ok2 {
		g.giveup("slice header")
		return "nil"
	}
	if arr.Sign() == 0 {
		return "nil"
	}
	if !off.IsInt64() || !ln.IsInt64() || ln.Int64() > 4096 || off.Int64() < 0 || ln.Int64() < 0 {
		g.giveup(fmt.Sprintf("slice of length %s at offset %s in the model (not materialised)", ln, off))
		return "nil"
	}
	el := sl.Elem()
	key := typeKey(el) + "|" + arr.String()
	a := g.arrs[key]
	if a == nil {
		a = &rarr{name: g.fresh("a"), elem: el, done: map[int64]bool{}}
		g.arrs[key] = a
	}
	o, n := off.Int64(), ln.Int64()
	if !a.used {
		a.used, a.lo, a.hi = true, o, o+n
	}
	if o < a.lo {
		a.lo = o
	}
	if o+n > a.hi {
		a.hi = o + n
	}
	if a.hi-a.lo > 8192 {
		g.giveup("slices over one backing array span more than 8192 elements in the model")
		return "nil"
	}
	ref := arr.String()
	for i := o; i < o+n; i++ {
		if a.done[i] {
			continue
		}
		a.done[i] = true
		i := i
		g.queue = append(g.queue, func() {
			ls := leaves(el)
			terms := make([]string, len(ls))
			for j, l := range ls {
				hk, ok := g.h0("E|" + typeKey(el) + "|" + l.Name)
				if !ok {
					terms[j] = zeroLeaf(l)
				} else {
					terms[j] = sel(hk, ref, strconv.FormatInt(i, 10))
				}
			}
			g.assign(fmt.Sprintf("%s[%d-%sBase]", a.name, i, a.name), el, terms)
		})
	}
	return fmt.Sprintf("%s(%s[%d-%sBase:%d-%sBase:%d-%sBase])", g.typeExpr(t), a.name, o, a.name, o+n, a.name, o+n, a.name)
}

var storeRe = regexp.MustCompile(`^\(store `)

// arrayEntries parses a finite array value printed as nested stores over a constant array.
func arrayEntries(v string) (entries [][2]string, def string, ok bool) {
	v = strings.TrimSpace(v)
	for {
		op, a, ok2 := splitSexp(v)
		if !ok2 {
			return nil, "", false
		}
		if op == "store" && len(a) == 3 {
			entries = append(entries, [2]string{a[1], a[2]})
			v = a[0]
			continue
		}
		if strings.HasPrefix(op, "(as") && len(a) == 1 {
			return entries, a[0], true
		}
		return nil, "", false
	}
}

func (g *rgen) mapExpr(t types.Type, mt *types.Map, term string) string {
	r, ok := g.intOf(term)
	if !ok {
		g.giveup("map reference")
		return "nil"
	}
	if r.Sign() == 0 {
		return "nil"
	}
	key := typeKey(mt) + "|" + r.String()
	if v, ok := g.maps[key]; ok {
		return v
	}
	v := g.fresh("m")
	g.maps[key] = v
	g.decls = append(g.decls, fmt.Sprintf("%s := make(%s)", v, g.typeExpr(t)))
	ref := r.String()
	g.queue = append(g.queue, func() {
		hk, ok := g.h0("MH|" + typeKey(mt))
		if !ok {
			return
		}
		ents, def, ok := arrayEntries(g.s.value(sel(hk, ref)))
		if !ok || def != "false" {
			g.giveup("map domain not printed as a finite set by the solver")
			return
		}
		seen := map[string]bool{}
		kl := leaves(mt.Key())
		for _, e := range ents {
			if seen[e[0]] || e[1] != "true" {
				seen[e[0]] = true
				continue
			}
			seen[e[0]] = true
			var kexpr string
			switch kl[0].Sort {
			case sInt:
				n, ok := parseSMTInt(e[0])
				if !ok {
					g.giveup("map key")
					return
				}
				kexpr = g.conv(mt.Key(), n.String())
			case sStr:
				kexpr = g.conv(mt.Key(), g.strLit(e[0]))
			default:
				g.giveup("map key sort")
				return
			}
			ls := leaves(mt.Elem())
			terms := make([]string, len(ls))
			for j, l := range ls {
				vk, ok := g.h0("MV|" + typeKey(mt) + "|" + l.Name)
				if !ok {
					terms[j] = zeroLeaf(l)
				} else {
					terms[j] = sel(vk, ref, e[0])
				}
			}
			if _, isStruct := mt.Elem().Underlying().(*types.Struct); isStruct && !isModelType(mt.Elem()) {
				tmp := g.fresh("mv")
				g.fills = append(g.fills, fmt.Sprintf("var %s %s", tmp, g.typeExpr(mt.Elem())))
				g.assign(tmp, mt.Elem(), terms)
				g.fills = append(g.fills, fmt.Sprintf("%s[%s] = %s", v, kexpr, tmp))
			} else {
				g.fills = append(g.fills, fmt.Sprintf("%s[%s] = %s", v, kexpr, g.expr(mt.Elem(), terms)))
			}
		}
	})
	return v
}

func isModelType(t types.Type) bool { _, ok := modelLeaves(t); return ok }

func (g *rgen) ifaceExpr(t types.Type, L []string) string {
	tag, ok := g.intOf(L[0])
	if !ok {
		g.giveup("interface tag")
		return "nil"
	}
	if tag.Sign() == 0 {
		return "nil"
	}
	id := int(tag.Int64())
	if id > 0 && id < len(g.w.typeNames) {
		if dt, ok := g.w.typeByKey[g.w.typeNames[id]]; ok {
			if pt, isPtr := dt.Underlying().(*types.Pointer); isPtr && isStructType(pt.Elem()) {
				return g.ptrExpr(dt, pt, L[1])
			}
		}
	}
	g.giveup("non-nil interface value in the entry state (dynamic type " + func() string {
		if id > 0 && id < len(g.w.typeNames) {
			return g.w.typeNames[id]
		}
		return "unknown"
	}() + "): needs a stub implementation")
	return "nil"
}

func (g *rgen) drain() {
	for len(g.queue) > 0 && g.fail == "" {
		f := g.queue[0]
		g.queue = g.queue[1:]
		f()
	}
}

// ---------------------------------------------------------------- clause → Go

type cgen struct {
	g      *rgen
	params map[string]bool
	nres   int
	bound  map[string]bool
	fail   string
	old    bool
	info   *types.Info
	pkgScope *types.Scope
	globKind map[string]string // package-level variables materialised from the model: "atomic" | "plain"
}

func (c *cgen) bad(why string) string {
	if c.fail == "" {
		c.fail = why
	}
	return "false"
}

var retRe = regexp.MustCompile(`^ret([0-9]+)$`)

func (c *cgen) tr(e ast.Expr) string {
	switch x := e.(type) {
	case *ast.ParenExpr:
		return "(" + c.tr(x.X) + ")"
	case *ast.BasicLit:
		return x.Value
	case *ast.Ident:
		switch x.Name {
		case "nil", "true", "false":
			return x.Name
		}
		if c.bound[x.Name] {
			return x.Name
		}
		if m := retRe.FindStringSubmatch(x.Name); m != nil {
			if c.old {
				return c.bad("result inside old()")
			}
			return "r" + m[1]
		}
		if c.params[x.Name] {
			if c.old {
				return "pre.p_" + x.Name
			}
			return "cur.p_" + x.Name
		}
		if c.globKind[x.Name] == "plain" {
			if c.old {
				return "old_g_" + x.Name
			}
			return x.Name
		}
		if c.pkgScope != nil {
			if o := c.pkgScope.Lookup(x.Name); o != nil {
				switch o.(type) {
				case *types.Const, *types.Func, *types.TypeName:
					return x.Name
				case *types.Var:
					if c.old {
						return c.bad("package-level variable " + x.Name + " inside old() is not snapshotted")
					}
					return x.Name
				}
			}
		}
		if types.Universe.Lookup(x.Name) != nil {
			return x.Name
		}
		return c.bad("identifier " + x.Name + " (local or ghost state) is not observable from outside the call")
	case *ast.SelectorExpr:
		if id, ok := x.X.(*ast.Ident); ok && c.globKind[id.Name] == "atomic" && x.Sel.Name == "v" {
			if c.old {
				return "old_g_" + id.Name
			}
			return id.Name + ".Load()"
		}
		if id, ok := x.X.(*ast.Ident); ok && !c.bound[id.Name] && !c.params[id.Name] {
			// package-qualified name
			for path, local := range c.g.imps {
				_ = path
				if local == id.Name {
					return id.Name + "." + x.Sel.Name
				}
			}
			for _, imp := range c.g.pkg.Imports() {
				if imp.Name() == id.Name {
					c.g.qual(imp)
					return c.g.imps[imp.Path()] + "." + x.Sel.Name
				}
			}
		}
		return c.tr(x.X) + "." + x.Sel.Name
	case *ast.IndexExpr:
		return c.tr(x.X) + "[" + c.tr(x.Index) + "]"
	case *ast.StarExpr:
		return "*" + c.tr(x.X)
	case *ast.UnaryExpr:
		return x.Op.String() + c.tr(x.X)
	case *ast.BinaryExpr:
		return "(" + c.tr(x.X) + " " + x.Op.String() + " " + c.tr(x.Y) + ")"
	case *ast.CallExpr:
		name := ""
		if id, ok := x.Fun.(*ast.Ident); ok {
			name = id.Name
		}
		switch name {
		case "imp":
			return "(!(" + c.tr(x.Args[0]) + ") || (" + c.tr(x.Args[1]) + "))"
		case "iff":
			return "((" + c.tr(x.Args[0]) + ") == (" + c.tr(x.Args[1]) + "))"
		case "ite":
			// only boolean branches can be expressed without knowing the type
			a, b := c.tr(x.Args[1]), c.tr(x.Args[2])
			return fmt.Sprintf("replayIte(%s, func() any { return %s }, func() any { return %s })", c.tr(x.Args[0]), a, b)
		case "old":
			if c.old {
				return c.tr(x.Args[0])
			}
			c.old = true
			s := c.tr(x.Args[0])
			c.old = false
			return "replayCur(cur, pre, " + s + ")"
		case "forall", "exists":
			if len(x.Args) != 4 {
				return c.bad("quantifier shape")
			}
			id := x.Args[0].(*ast.Ident).Name
			was := c.bound[id]
			c.bound[id] = true
			lo, hi := c.tr(x.Args[1]), c.tr(x.Args[2])
			body := c.tr(x.Args[3])
			c.bound[id] = was
			fn := "replayForall"
			if name == "exists" {
				fn = "replayExists"
			}
			return fmt.Sprintf("%s(%s, %s, func(%s int) bool { return %s })", fn, lo, hi, id, body)
		case "len", "cap", "int", "int8", "int16", "int32", "int64", "uint", "uint8", "uint16", "uint32", "uint64", "byte", "float64", "string", "bool":
			var as []string
			for _, a := range x.Args {
				as = append(as, c.tr(a))
			}
			return name + "(" + strings.Join(as, ", ") + ")"
		case "abs":
			return "replayAbs(float64(" + c.tr(x.Args[0]) + "))"
		case "real":
			return "float64(" + c.tr(x.Args[0]) + ")"
		case "be16":
			return fmt.Sprintf("replayBE(%s, %s, 2)", c.tr(x.Args[0]), c.tr(x.Args[1]))
		case "be32":
			return fmt.Sprintf("replayBE(%s, %s, 4)", c.tr(x.Args[0]), c.tr(x.Args[1]))
		case "has":
			return fmt.Sprintf("replayHas(%s, %s)", c.tr(x.Args[0]), c.tr(x.Args[1]))
		case "fresh":
			if c.old {
				return c.bad("fresh inside old()")
			}
			return "replayFresh(cur, " + c.tr(x.Args[0]) + ")"
		case "allocated", "live":
			return "(" + c.tr(x.Args[0]) + " != nil)"
		}
		if name != "" {
			if c.pkgScope != nil {
				if o, ok := c.pkgScope.Lookup(name).(*types.Func); ok && o != nil {
					var as []string
					for _, a := range x.Args {
						as = append(as, c.tr(a))
					}
					return name + "(" + strings.Join(as, ", ") + ")"
				}
				if _, ok := c.pkgScope.Lookup(name).(*types.TypeName); ok {
					return name + "(" + c.tr(x.Args[0]) + ")"
				}
			}
			return c.bad("specification construct " + name + "(...) speaks about ghost or solver-level state and has no executable reading")
		}
		// method call or qualified call
		var as []string
		for _, a := range x.Args {
			as = append(as, c.tr(a))
		}
		return c.tr(x.Fun) + "(" + strings.Join(as, ", ") + ")"
	}
	return c.bad(fmt.Sprintf("expression form %T", e))
}

// ---------------------------------------------------------------- driver

const replayHelpers = `
type replayEnv struct {
	objs []any
%s}

func replayForall(lo, hi int, f func(int) bool) bool {
	for i := lo; i < hi; i++ {
		if !f(i) {
			return false
		}
	}
	return true
}

func replayExists(lo, hi int, f func(int) bool) bool {
	for i := lo; i < hi; i++ {
		if f(i) {
			return true
		}
	}
	return false
}

func replayAbs(x float64) float64 {
	if x < 0 {
		return -x
	}
	return x
}

func replayBE(s []byte, i int, n int) int {
	v := 0
	for k := 0; k < n; k++ {
		v = v<<8 | int(s[i+k])
	}
	return v
}

func replayHas[K comparable, V any](m map[K]V, k K) bool { _, ok := m[k]; return ok }

func replayIte(c bool, a, b func() any) bool {
	if c {
		return a().(bool)
	}
	return b().(bool)
}

// replayCur maps a pointer taken from the untouched copy of the entry state to the corresponding object of the
// state the function ran on (objects are created in the same order in both copies); other values pass through.
func replayCur[T any](cur, pre *replayEnv, v T) T {
	rv := reflect.ValueOf(&v).Elem()
	if rv.Kind() == reflect.Pointer && !rv.IsNil() {
		for i, o := range pre.objs {
			if reflect.ValueOf(o).Pointer() == rv.Pointer() && reflect.TypeOf(o) == rv.Type() {
				return cur.objs[i].(T)
			}
		}
	}
	return v
}

func replayFresh(cur *replayEnv, p any) bool {
	rv := reflect.ValueOf(p)
	if rv.Kind() != reflect.Pointer || rv.IsNil() {
		return false
	}
	for _, o := range cur.objs {
		if reflect.ValueOf(o).Pointer() == rv.Pointer() {
			return false
		}
	}
	return true
}
`

func replayGeneric(w *World, r *UnitResult, ob *Obligation) map[string]interface{} {
	out := map[string]interface{}{"confirmed": false}
	defer func() {
		if rec := recover(); rec != nil {
			out["note"] = fmt.Sprintf("replay generator failed: %v", rec)
		}
	}()
	fn := r.Unit.Fn
	ex := r.Ex
	if fn.Parent() != nil || len(fn.FreeVars) > 0 {
		out["note"] = "not replayed: the unit is a closure (its entry state includes captured variables of a running caller)"
		return out
	}
	if fn.Pkg == nil || fn.TypeParams().Len() > 0 || len(fn.TypeArgs()) > 0 {
		out["note"] = "not replayed: generic instance"
		return out
	}
	if fn.Signature.Recv() != nil && fn.Signature.Recv().Pkg() != fn.Pkg.Pkg {
		out["note"] = "not replayed: method of another package"
		return out
	}
	if ex == nil || len(ex.entryArgs) != len(fn.Params) {
		out["note"] = "not replayed: entry state not recorded"
		return out
	}
	query := ex.queryFor(ob)
	// small models first: bound the lengths of parameter slices
	var bounds []string
	for i, p := range fn.Params {
		for j, l := range leaves(p.Type()) {
			if l.Kind == kSlLen || l.Kind == kSlCap {
				bounds = append(bounds, app("<=", ex.entryArgs[i].L[j], "24"))
			}
			if l.Kind == kSlOff {
				bounds = append(bounds, app("<=", ex.entryArgs[i].L[j], "4"))
			}
		}
	}
	// type invariants the VC leaves implicit: sized atomics hold values of their width
	var typeInv []string
	for name, m := range fn.Pkg.Members {
		gl, ok := m.(*ssa.Global)
		if !ok {
			continue
		}
		et := gl.Type().Underlying().(*types.Pointer).Elem()
		if n, ok := types.Unalias(et).(*types.Named); ok && n.Obj().Pkg() != nil && n.Obj().Pkg().Path() == "sync/atomic" {
			hk := "H0!" + sanitize("G|"+gl.Pkg.Pkg.Path()+"."+name+"|v")
			if _, decl := ex.declared[hk]; decl {
				switch n.Obj().Name() {
				case "Uint32":
					typeInv = append(typeInv, and(app("<=", "0", hk), app("<=", hk, "4294967295")))
				case "Int32":
					typeInv = append(typeInv, and(app("<=", "(- 2147483648)", hk), app("<=", hk, "2147483647")))
				case "Uint64":
					typeInv = append(typeInv, and(app("<=", "0", hk), app("<=", hk, "18446744073709551615")))
				case "Int64":
					typeInv = append(typeInv, and(app("<=", "(- 9223372036854775808)", hk), app("<=", hk, "9223372036854775807")))
				}
			}
		}
	}
	sort.Strings(typeInv)
	var s *smtSession
	status := ""
	var tried []string
	type attempt struct {
		bin    string
		bounds []string
	}
	var attempts []attempt
	for _, bin := range []string{"z3-new", "z3"} {
		if len(bounds) > 0 {
			attempts = append(attempts, attempt{bin, bounds})
		}
		attempts = append(attempts, attempt{bin, nil})
	}
	for _, try := range attempts {
		s, status = startSession(try.bin, query, append(append([]string{}, typeInv...), try.bounds...))
		tried = append(tried, fmt.Sprintf("%s/bounded=%v:%s", try.bin, try.bounds != nil, status))
		if status == "sat" {
			break
		}
		s.close()
		s = nil
	}
	out["model_session"] = strings.Join(tried, " ")
	if s == nil {
		out["note"] = "not replayed: could not re-obtain a model in an interactive solver session (" + status + ")"
		return out
	}
	defer s.close()
	out["model_session"] = strings.Join(tried, " ")
	g := &rgen{w: w, ex: ex, s: s, pkg: fn.Pkg.Pkg, imps: map[string]string{}, objs: map[string]string{}, arrs: map[string]*rarr{}, maps: map[string]string{}}
	if ck, ok := g.h0("X|clock"); ok {
		g.clock0, _ = g.intOf(ck)
	}
	if g.clock0 == nil {
		g.clock0 = new(big.Int).Lsh(big.NewInt(1), 63)
	}
	// parameters
	var fields, builds []string
	params := map[string]bool{}
	var argNames []string
	for i, p := range fn.Params {
		name := p.Name()
		if name == "" || name == "_" {
			name = fmt.Sprintf("arg%d", i)
		}
		params[p.Name()] = true
		te := g.typeExpr(p.Type())
		fields = append(fields, fmt.Sprintf("\tp_%s %s\n", name, te))
		if _, isStruct := p.Type().Underlying().(*types.Struct); isStruct && !isModelType(p.Type()) {
			idx := i
			g.queue = append(g.queue, func() { g.assign("e.p_"+name, fn.Params[idx].Type(), ex.entryArgs[idx].L) })
		} else {
			builds = append(builds, fmt.Sprintf("e.p_%s = %s", name, g.expr(p.Type(), ex.entryArgs[i].L)))
		}
		argNames = append(argNames, "cur.p_"+name)
	}
	// package-level variables of simple type (counters): entry value from the model, snapshot for old()
	var globSnap []string
	globKind := map[string]string{}
	var gnames []string
	for name := range fn.Pkg.Members {
		gnames = append(gnames, name)
	}
	sort.Strings(gnames)
	for _, name := range gnames {
		gl, ok := fn.Pkg.Members[name].(*ssa.Global)
		if !ok {
			continue
		}
		et := gl.Type().Underlying().(*types.Pointer).Elem()
		_, isBasic := et.Underlying().(*types.Basic)
		isAtomic := false
		if n, ok := types.Unalias(et).(*types.Named); ok && n.Obj().Pkg() != nil && n.Obj().Pkg().Path() == "sync/atomic" {
			isAtomic = true
		}
		if !isBasic && !isAtomic {
			continue
		}
		ls := leaves(et)
		terms := make([]string, len(ls))
		any := false
		for j, l := range ls {
			hk, ok := g.h0("G|" + gl.Pkg.Pkg.Path() + "." + gl.Name() + "|" + l.Name)
			if ok {
				terms[j] = hk
				any = true
			} else {
				terms[j] = zeroLeaf(l)
			}
		}
		if !any {
			continue
		}
		nm := name
		g.queue = append(g.queue, func() { g.assign(nm, et, terms) })
		if isAtomic {
			globKind[name] = "atomic"
			globSnap = append(globSnap, fmt.Sprintf("old_g_%s := %s.Load()", name, name))
		} else {
			globKind[name] = "plain"
			globSnap = append(globSnap, fmt.Sprintf("old_g_%s := %s", name, name))
		}
	}
	g.drain()
	if g.fail != "" {
		out["note"] = "not replayed: " + g.fail
		return out
	}
	// the call
	sig := fn.Signature
	var call string
	args := argNames
	if sig.Recv() != nil {
		call = "(" + args[0] + ")." + fn.Name()
		args = args[1:]
	} else {
		call = fn.Name()
	}
	if sig.Variadic() && len(args) > 0 {
		args[len(args)-1] += "..."
	}
	var rs []string
	for i := 0; i < sig.Results().Len(); i++ {
		rs = append(rs, fmt.Sprintf("r%d", i))
	}
	callStmt := call + "(" + strings.Join(args, ", ") + ")"
	if len(rs) > 0 {
		callStmt = strings.Join(rs, ", ") + " := " + callStmt
	}
	// the oracle
	oracle := ""
	mode := ""
	posLine := ob.Pos
	switch ob.Kind {
	case "nopanic":
		mode = "panic"
	case "ensures":
		var cl *Clause
		for _, c := range r.Unit.C.Ensures {
			if c.Label == strings.SplitN(ob.Label, "~", 2)[0] {
				cl = c
			}
		}
		if cl == nil {
			out["note"] = "not replayed: clause not found"
			return out
		}
		cg := &cgen{g: g, params: params, nres: len(rs), bound: map[string]bool{}, pkgScope: fn.Pkg.Pkg.Scope(), globKind: globKind}
		oracle = cg.tr(cl.Expr)
		if cg.fail != "" {
			out["note"] = "not replayed: the violated clause has no executable reading: " + cg.fail
			return out
		}
		mode = "clause"
	default:
		out["note"] = "not replayed: the failed obligation is internal to the function body (" + ob.Kind + "): its model describes an intermediate state, not an input"
		return out
	}
	// arrays are declared once their sizes are known
	var arrDecls []string
	var aks []string
	for k := range g.arrs {
		aks = append(aks, k)
	}
	sort.Slice(aks, func(i, j int) bool { return g.arrs[aks[i]].name < g.arrs[aks[j]].name })
	for _, k := range aks {
		a := g.arrs[k]
		arrDecls = append(arrDecls, fmt.Sprintf("const %sBase = %d", a.name, a.lo))
		arrDecls = append(arrDecls, fmt.Sprintf("%s := make([]%s, %d)", a.name, g.typeExpr(a.elem), a.hi-a.lo))
	}
	if g.fail != "" {
		out["note"] = "not replayed: " + g.fail
		return out
	}
	var b strings.Builder
	b.WriteString("package " + fn.Pkg.Pkg.Name() + "\n\nimport (\n\t\"fmt\"\n\t\"reflect\"\n\t\"runtime/debug\"\n\t\"testing\"\n\t\"time\"\n")
	var ips []string
	for p := range g.imps {
		ips = append(ips, p)
	}
	sort.Strings(ips)
	for _, p := range ips {
		if p == "fmt" || p == "reflect" || p == "testing" || p == "time" || p == "runtime/debug" {
			continue
		}
		b.WriteString(fmt.Sprintf("\t%s %q\n", g.imps[p], p))
	}
	b.WriteString(")\n\nvar _ = reflect.TypeOf\nvar _ = time.Now\nvar replayT0 = time.Now()\n")
	b.WriteString(fmt.Sprintf(replayHelpers, strings.Join(fields, "")))
	b.WriteString("\nfunc replayMk() *replayEnv {\n\te := &replayEnv{}\n")
	for _, d := range arrDecls {
		b.WriteString("\t" + d + "\n")
	}
	for _, d := range g.decls {
		b.WriteString("\t" + d + "\n")
	}
	for _, d := range g.fills {
		b.WriteString("\t" + d + "\n")
	}
	for _, d := range builds {
		b.WriteString("\t" + d + "\n")
	}
	for _, k := range aks {
		b.WriteString("\t_ = " + g.arrs[k].name + "\n")
	}
	b.WriteString("\treturn e\n}\n\n")
	b.WriteString("func TestGovcReplay(t *testing.T) {\n\tcur, pre := replayMk(), replayMk()\n\t_, _ = cur, pre\n")
	b.WriteString("\tdefer func() {\n\t\tif p := recover(); p != nil {\n\t\t\tfmt.Printf(\"GOVC-REPLAY panic=%v\\n\", p)\n\t\t\tfmt.Printf(\"GOVC-REPLAY-STACK\\n%s\\nGOVC-REPLAY-STACK-END\\n\", debug.Stack())\n\t\t}\n\t}()\n")
	for _, gs := range globSnap {
		b.WriteString("\t" + gs + "\n\t_ = " + strings.Fields(gs)[0] + "\n")
	}
	b.WriteString("\t" + callStmt + "\n")
	for _, rname := range rs {
		b.WriteString("\t_ = " + rname + "\n")
	}
	b.WriteString("\tfmt.Println(\"GOVC-REPLAY returned\")\n")
	if mode == "clause" {
		b.WriteString("\tfmt.Printf(\"GOVC-REPLAY clause=%v\\n\", " + oracle + ")\n")
	}
	b.WriteString("}\n")
	test := b.String()
	out["go_test"] = test
	if len(g.notes) > 0 {
		out["notes"] = dedupe(g.notes)
	}
	// run it
	tmp, err := os.MkdirTemp("", "govc-replay")
	if err != nil {
		out["note"] = err.Error()
		return out
	}
	defer os.RemoveAll(tmp)
	repo := repoDir()
	rel := strings.TrimPrefix(fn.Pkg.Pkg.Path(), w.module)
	rel = strings.TrimPrefix(rel, "/")
	pkgDir := filepath.Join(repo, rel)
	tf := filepath.Join(tmp, "zz_govc_replay_test.go")
	os.WriteFile(tf, []byte(test), 0o644)
	ov, _ := json.Marshal(map[string]interface{}{"Replace": map[string]string{filepath.Join(pkgDir, "zz_govc_replay_test.go"): tf}})
	ovf := filepath.Join(tmp, "ov.json")
	os.WriteFile(ovf, ov, 0o644)
	target := "./" + rel
	if rel == "" {
		target = "."
	}
	cmdline := []string{"go", "test", "-tags", "verif", "-overlay", ovf, "-vet=off", "-count=1", "-v", "-timeout", "60s", "-run", "^TestGovcReplay$", target}
	cmd := exec.Command(cmdline[0], cmdline[1:]...)
	cmd.Dir = repo
	cmd.Env = append(cleanEnv(), "GOFLAGS=-mod=mod", "GOPROXY=off")
	done := make(chan struct{})
	var log []byte
	go func() { log, _ = cmd.CombinedOutput(); close(done) }()
	select {
	case <-done:
	case <-time.After(150 * time.Second):
		if cmd.Process != nil {
			cmd.Process.Kill()
		}
		out["note"] = "replay timed out"
		return out
	}
	ls := string(log)
	out["replay_cmd"] = strings.Join(cmdline, " ") + "   (overlay: the generated test as " + filepath.Join(rel, "zz_govc_replay_test.go") + ")"
	out["replay_log"] = trunc(ls, 6000)
	switch mode {
	case "panic":
		m := regexp.MustCompile(`GOVC-REPLAY panic=(.*)`).FindStringSubmatch(ls)
		if m == nil {
			out["note"] = "the real function did not panic on the model's input: the counterexample does not replay"
			return out
		}
		file := posLine
		if i := strings.LastIndex(posLine, ":"); i > 0 {
			file = filepath.Base(posLine[:i]) + posLine[i:]
		}
		if !strings.Contains(ls, file) {
			out["note"] = "the real function panicked (" + m[1] + ") but not at " + posLine + ": not counted as a replay of this obligation"
			return out
		}
		out["confirmed"] = true
		out["note"] = "real code panics on the model's input: " + m[1] + " (stack passes through " + posLine + ")"
	case "clause":
		if regexp.MustCompile(`GOVC-REPLAY panic=`).MatchString(ls) {
			out["note"] = "the real function panicked on the model's input before the clause could be evaluated"
			return out
		}
		m := regexp.MustCompile(`GOVC-REPLAY clause=(true|false)`).FindStringSubmatch(ls)
		if m == nil {
			out["note"] = "the replay test did not run to completion (see replay_log)"
			return out
		}
		if m[1] == "true" {
			out["note"] = "the clause holds on the real post-state for the model's input: the counterexample does not replay (it leaned on an abstraction or an assumed contract)"
			return out
		}
		out["confirmed"] = true
		out["note"] = "the violated clause evaluates to false on the real post-state produced from the model's input"
	}
	return out
}

func dedupe(s []string) []string {
	seen := map[string]bool{}
	var out []string
	for _, x := range s {
		if !seen[x] {
			seen[x] = true
			out = append(out, x)
		}
	}
	return out
}

var _ = token.NoPos
var _ ssa.Value

// ---------------------------------------------------------------- conformance sampling of assumed contracts

// conformAssumed runs the real function behind an `assume func` contract on sampled inputs and evaluates the assumed
// postconditions (compiled to Go like a replayed clause). It is a test of an assumption, never a proof: a passing run
// is reported as "sampled", a failing one is a confirmed counterexample (real input, real run) against the contract
// every caller's proof relies on.
func conformAssumed(w *World, c *Contract) map[string]interface{} {
	out := map[string]interface{}{"contract": unitName(c), "sampled": false}
	defer func() {
		if rec := recover(); rec != nil {
			out["note"] = fmt.Sprintf("sampler failed: %v", rec)
		}
	}()
	fn := c.Fn
	if fn == nil || fn.Pkg == nil || fn.Parent() != nil || fn.TypeParams().Len() > 0 || !strings.HasPrefix(fn.Pkg.Pkg.Path(), w.module) {
		out["note"] = "not sampled: not a plain function of the repository"
		return out
	}
	g := &rgen{w: w, pkg: fn.Pkg.Pkg, imps: map[string]string{}, objs: map[string]string{}, arrs: map[string]*rarr{}, maps: map[string]string{}}
	var fields, gens, args []string
	params := map[string]bool{}
	ok := true
	var genFor func(lhs string, t types.Type, depth int) []string
	genFor = func(lhs string, t types.Type, depth int) []string {
		if isModelType(t) || depth > 3 {
			return nil
		}
		switch u := t.Underlying().(type) {
		case *types.Basic:
			switch {
			case u.Info()&types.IsInteger != 0:
				return []string{fmt.Sprintf("%s = %s(replayGenInt(rnd))", lhs, g.typeExpr(t))}
			case u.Info()&types.IsBoolean != 0:
				return []string{fmt.Sprintf("%s = %s(rnd.Intn(2) == 0)", lhs, g.typeExpr(t))}
			}
			return nil
		case *types.Slice:
			if b, isB := u.Elem().Underlying().(*types.Basic); isB && b.Kind() == types.Uint8 {
				return []string{fmt.Sprintf("%s = %s(replayGenBytes(rnd, n))", lhs, g.typeExpr(t))}
			}
			return nil
		case *types.Struct:
			var o []string
			for i := 0; i < u.NumFields(); i++ {
				f := u.Field(i)
				if !f.Exported() && f.Pkg() != g.pkg {
					continue
				}
				o = append(o, genFor(lhs+"."+f.Name(), f.Type(), depth+1)...)
			}
			return o
		}
		return nil
	}
	for i, p := range fn.Params {
		name := p.Name()
		if name == "" || name == "_" {
			name = fmt.Sprintf("arg%d", i)
		}
		params[p.Name()] = true
		te := g.typeExpr(p.Type())
		fields = append(fields, fmt.Sprintf("\tp_%s %s\n", name, te))
		switch p.Type().Underlying().(type) {
		case *types.Pointer, *types.Interface, *types.Map, *types.Chan, *types.Signature:
			ok = false
		}
		gens = append(gens, genFor("cur.p_"+name, p.Type(), 0)...)
		args = append(args, "cur.p_"+name)
	}
	if !ok || g.fail != "" || fn.Signature.Recv() != nil {
		out["note"] = "not sampled: parameters need objects or stubs (" + g.fail + ")"
		return out
	}
	var rs []string
	for i := 0; i < fn.Signature.Results().Len(); i++ {
		rs = append(rs, fmt.Sprintf("r%d", i))
	}
	var checks, skipped, labels []string
	for _, cl := range c.Ensures {
		cg := &cgen{g: g, params: params, nres: len(rs), bound: map[string]bool{}, pkgScope: fn.Pkg.Pkg.Scope()}
		e := cg.tr(cl.Expr)
		if cg.fail != "" {
			skipped = append(skipped, cl.Label+": "+cg.fail)
			continue
		}
		labels = append(labels, cl.Label)
		checks = append(checks, fmt.Sprintf("\t\t\tif !(%s) {\n\t\t\t\tfmt.Printf(\"GOVC-CONFORM fail label=%s input=%%#v\\n\", *cur)\n\t\t\t\tfails++\n\t\t\t}", e, cl.Label))
	}
	if len(checks) == 0 {
		out["note"] = "not sampled: no assumed postcondition has an executable reading"
		return out
	}
	call := fn.Name() + "(" + strings.Join(args, ", ") + ")"
	if len(rs) > 0 {
		call = strings.Join(rs, ", ") + " := " + call
	}
	var b strings.Builder
	b.WriteString("package " + fn.Pkg.Pkg.Name() + "\n\nimport (\n\t\"fmt\"\n\t\"math/rand\"\n\t\"reflect\"\n\t\"testing\"\n\t\"time\"\n")
	var ips []string
	for p := range g.imps {
		ips = append(ips, p)
	}
	sort.Strings(ips)
	for _, p := range ips {
		if p == "fmt" || p == "reflect" || p == "testing" || p == "time" || p == "math/rand" {
			continue
		}
		b.WriteString(fmt.Sprintf("\t%s %q\n", g.imps[p], p))
	}
	b.WriteString(")\n\nvar _ = reflect.TypeOf\nvar _ = time.Now\nvar replayT0 = time.Now()\n")
	b.WriteString(fmt.Sprintf(replayHelpers, strings.Join(fields, "")))
	b.WriteString(`
var replayInteresting = []byte{0, 1, 2, 3, 4, 6, 8, 11, 17, 58, 64, 69, 96, 128, 129, 135, 255}

func replayGenBytes(rnd *rand.Rand, n int) []byte {
	ln := 0
	if n < 17*64 {
		ln = n % 17
	} else {
		ln = rnd.Intn(48)
	}
	b := make([]byte, ln)
	for i := range b {
		if rnd.Intn(2) == 0 || (i == 0 && n%2 == 0) {
			b[i] = replayInteresting[rnd.Intn(len(replayInteresting))]
		} else {
			b[i] = byte(rnd.Intn(256))
		}
	}
	return b
}

func replayGenInt(rnd *rand.Rand) int64 {
	switch rnd.Intn(4) {
	case 0:
		return int64(rnd.Intn(4))
	case 1:
		return int64(250 + rnd.Intn(10))
	case 2:
		return int64(65530 + rnd.Intn(10))
	}
	return rnd.Int63n(1 << 32)
}

func TestGovcConform(t *testing.T) {
	rnd := rand.New(rand.NewSource(20251005))
	fails, n := 0, 0
	for n = 0; n < 20000 && fails < 3; n++ {
		cur := &replayEnv{}
		pre := cur
		_ = pre
`)
	for _, gs := range gens {
		b.WriteString("\t\t" + gs + "\n")
	}
	b.WriteString("\t\tfunc() {\n\t\t\tdefer func() {\n\t\t\t\tif p := recover(); p != nil {\n\t\t\t\t\tfmt.Printf(\"GOVC-CONFORM fail label=panic input=%#v panic=%v\\n\", *cur, p)\n\t\t\t\t\tfails++\n\t\t\t\t}\n\t\t\t}()\n")
	b.WriteString("\t\t\t" + call + "\n")
	for _, r := range rs {
		b.WriteString("\t\t\t_ = " + r + "\n")
	}
	for _, ch := range checks {
		b.WriteString(ch + "\n")
	}
	b.WriteString("\t\t}()\n\t}\n\tfmt.Printf(\"GOVC-CONFORM done samples=%d fails=%d\\n\", n, fails)\n}\n")
	test := b.String()
	tmp, err := os.MkdirTemp("", "govc-conform")
	if err != nil {
		out["note"] = err.Error()
		return out
	}
	defer os.RemoveAll(tmp)
	repo := repoDir()
	rel := strings.TrimPrefix(strings.TrimPrefix(fn.Pkg.Pkg.Path(), w.module), "/")
	tf := filepath.Join(tmp, "zz_govc_conform_test.go")
	os.WriteFile(tf, []byte(test), 0o644)
	ov, _ := json.Marshal(map[string]interface{}{"Replace": map[string]string{filepath.Join(repo, rel, "zz_govc_conform_test.go"): tf}})
	ovf := filepath.Join(tmp, "ov.json")
	os.WriteFile(ovf, ov, 0o644)
	cmd := exec.Command("go", "test", "-tags", "verif", "-overlay", ovf, "-vet=off", "-count=1", "-v", "-timeout", "90s", "-run", "^TestGovcConform$", "./"+rel)
	cmd.Dir = repo
	cmd.Env = append(cleanEnv(), "GOFLAGS=-mod=mod", "GOPROXY=off")
	lg, _ := cmd.CombinedOutput()
	ls := string(lg)
	out["clauses_sampled"] = labels
	out["clauses_without_executable_reading"] = skipped
	m := regexp.MustCompile(`GOVC-CONFORM done samples=(\d+) fails=(\d+)`).FindStringSubmatch(ls)
	if m == nil {
		out["note"] = "sampler did not run to completion: " + trunc(ls, 1500)
		return out
	}
	out["sampled"] = true
	out["samples"], _ = strconv.Atoi(m[1])
	nf, _ := strconv.Atoi(m[2])
	out["failures"] = nf
	if nf > 0 {
		var fl []string
		for _, l := range strings.Split(ls, "\n") {
			if strings.HasPrefix(l, "GOVC-CONFORM fail") {
				fl = append(fl, trunc(l, 600))
			}
		}
		out["failing_inputs"] = fl
		out["go_test"] = test
	}
	return out
}
