package main

import (
	"sync"
	"flag"
	"regexp"
	"runtime/pprof"
	"runtime"
	"runtime/debug"
	"fmt"
	"os"
	"strings"
	"time"
)

func main() {
	if len(os.Args) < 2 {
		fmt.Println("usage: govc verify|units|check ...")
		os.Exit(2)
	}
	defer cleanupScratch()
	debug.SetMemoryLimit(12 << 30)
	go memWatchdog()
	switch os.Args[1] {
	case "verify":
		cmdVerify(os.Args[2:])
	case "check":
		code := cmdCheck(os.Args[2:])
		cleanupScratch()
		os.Exit(code)
	case "bpf":
		w, err := loadWorld(repoDir(), nil)
		if err != nil {
			fmt.Println(err)
			os.Exit(2)
		}
		obs, errs := w.bpfObligations()
		for _, e := range errs {
			fmt.Println("ERROR", e)
		}
		for _, ob := range obs {
			r := solve(ob.Query, sanitize(ob.Name), 30000, true, true)
			fmt.Printf("%-45s %s %s %.2fs %v\n", ob.Name, r.Status, r.Solver, r.Secs, r.Answers)
		}
	case "stability":
		os.Exit(cmdStability(os.Args[2:]))
	case "names":
		os.Exit(cmdNames())
	case "units":
		w, err := loadWorld(repoDir(), nil)
		if err != nil {
			fmt.Println(err)
			os.Exit(2)
		}
		for _, u := range collectUnits(w) {
			fmt.Println(u.Name)
		}
	default:
		fmt.Println("unknown command")
		os.Exit(2)
	}
}

func cmdVerify(args []string) {
	fs := flag.NewFlagSet("verify", flag.ExitOnError)
	unit := fs.String("unit", "", "substring filter on unit names")
	thorough := fs.Bool("thorough", false, "all solvers, one query per obligation")
	timeout := fs.Int("timeout", 20000, "per-query timeout (ms)")
	keep := fs.String("keep", "", "directory for failing queries")
	verbose := fs.Bool("v", false, "list every obligation")
	dump := fs.String("dump", "", "dump the full VC of matching units into this directory")
	showModel := fs.String("showmodel", "", "regexp: print matching scalar constants of counterexample models")
	seedFlag := fs.Int("seed", 0, "solver random seed (as VERIF_SEED does for check)")
	doReplay := fs.Bool("replay", false, "try to replay counterexamples of failing obligations on the real code")
	split := fs.Bool("split", false, "on failure, try each conjunct of the goal separately (diagnostics)")
	var subs multiFlag
	fs.Var(&subs, "sub", "in-memory source rewrite FILE:::OLD:::NEW (relative to /repo), repeatable")
	fs.Parse(args)
	solverSeed = *seedFlag
	t0 := time.Now()
	overlay, oerr := buildOverlay(repoDir(), subs)
	if oerr != nil {
		fmt.Println("overlay error:", oerr)
		os.Exit(2)
	}
	w, err := loadWorld(repoDir(), overlay)
	if err != nil {
		fmt.Println("load error:", err)
		os.Exit(2)
	}
	fmt.Printf("loaded in %.1fs\n", time.Since(t0).Seconds())
	fail := 0
	for _, u := range collectUnits(w) {
		if *unit != "" && !strings.Contains(u.Name, *unit) {
			continue
		}
		r := verifyUnit(w, u, Options{Thorough: *thorough, TimeoutMs: *timeout})
		if r.Refused != "" {
			fmt.Printf("REFUSED %s: %s\n", u.Name, r.Refused)
			fail++
			continue
		}
		ok, bad := 0, 0
		for _, ob := range r.Obls {
			if ob.ok() {
				ok++
			} else {
				bad++
			}
		}
		maxq := 0
		for _, ob := range r.Obls {
			if ob.QueryBytes > maxq {
				maxq = ob.QueryBytes
			}
		}
		fmt.Printf("%-50s obligations=%d ok=%d failed=%d vacuity=%s %.1fs maxquery=%dKB\n", u.Name, len(r.Obls), ok, bad, r.Vacuity, r.Secs, maxq/1024)
		if len(r.DeadReturns) > 0 {
			var ps []string
			for _, i := range r.DeadReturns {
				if i-1 < len(r.Ex.returnPos) {
					ps = append(ps, r.Ex.returnPos[i-1])
				}
			}
			fmt.Printf("   WARNING unreachable return sites: %v of %d %v\n", r.DeadReturns, len(r.Ex.returnReach), ps)
		}
		if len(r.DeadBack) > 0 {
			fmt.Printf("   WARNING unreachable loop back edges (loop body obligations vacuous): %v\n", r.DeadBack)
		}
		for _, ob := range r.Obls {
			if !ob.ok() || *verbose {
				st := "?"
				if ob.Result != nil {
					st = fmt.Sprintf("%s %s %.2fs cand=%v %v ", ob.Result.Status, ob.Result.Solver, ob.Result.Secs, ob.Result.Candidate, ob.Result.Answers)
					if len(st) > 300 {
						st = st[:300]
					}
				}
				fmt.Printf("   %-8s %-40s %s | %s | %s\n", ob.Kind, ob.Label, ob.Pos, ob.Text, strings.ReplaceAll(st, "\n", " "))
				if !ob.ok() && *showModel != "" && ob.Result != nil && ob.Result.Model != "" {
					re := regexp.MustCompile(*showModel)
					for _, kv := range modelScalars(ob.Result.Model) {
						if re.MatchString(kv[0]) {
							fmt.Printf("        %s = %s\n", kv[0], kv[1])
						}
					}
				}
				if !ob.ok() && *doReplay && ob.Result != nil && ob.Result.Status == "sat" {
					rep := replayModel(w, r, ob)
					fmt.Printf("        REPLAY confirmed=%v note=%v [%v]\n", rep["confirmed"], rep["note"], rep["model_session"])
					if os.Getenv("GOVC_SHOWTEST") != "" {
						fmt.Printf("%v\n--- log:\n%v\n", rep["go_test"], rep["replay_log"])
					}
				}
				if !ob.ok() && *split {
					cs := conjuncts(ob.Goal)
					for i, c := range cs {
						q := r.Ex.header() + r.Ex.prefix(ob.Index) + "(assert (not " + c + "))\n"
						sr := solve(q, fmt.Sprintf("split%d", i), *timeout, false, false)
						txt := c
						if len(txt) > 400 {
							txt = "..." + txt[len(txt)-400:]
						}
						fmt.Printf("        conjunct %d/%d: %s  %s\n", i+1, len(cs), sr.Status, txt)
					}
				}
				if !ob.ok() && *keep != "" {
					keepQuery(*keep, r.Ex, ob)
				}
			}
		}
		if *dump != "" {
			os.MkdirAll(*dump, 0o755)
			var b strings.Builder
			b.WriteString(r.Ex.header())
			for _, it := range r.Ex.items {
				if it.Ob != nil {
					b.WriteString("; OBLIGATION " + it.Ob.Label + "\n;   " + it.Ob.Goal + "\n")
				} else {
					b.WriteString("(assert " + it.Assume + ")\n")
				}
			}
			for i, br := range r.Ex.backReach {
				b.WriteString("; BACKEDGE " + r.Ex.backPos[i] + "\n;   " + br + "\n")
			}
			os.WriteFile(*dump+"/"+sanitize(u.Name)+".vc", []byte(b.String()), 0o644)
		}
		for k := range r.Ex.used {
			if strings.HasPrefix(k, "UNMODELLED") || *verbose {
				fmt.Println("   used:", k)
			}
		}
		fail += bad
	}
	if fail > 0 {
		os.Exit(1)
	}
}

type multiFlag []string

func (m *multiFlag) String() string     { return strings.Join(*m, ",") }
func (m *multiFlag) Set(s string) error { *m = append(*m, s); return nil }

// buildOverlay applies textual rewrites to files of the repository without touching the disk.
func buildOverlay(root string, subs []string) (map[string][]byte, error) {
	if len(subs) == 0 {
		return nil, nil
	}
	ov := map[string][]byte{}
	for _, s := range subs {
		p := strings.SplitN(s, ":::", 3)
		if len(p) != 3 {
			return nil, fmt.Errorf("bad -sub %q", s)
		}
		path := root + "/" + p[0]
		src, ok := ov[path]
		if !ok {
			b, err := os.ReadFile(path)
			if err != nil {
				return nil, err
			}
			src = b
		}
		if !strings.Contains(string(src), p[1]) {
			return nil, fmt.Errorf("rewrite target not found in %s: %q", p[0], p[1])
		}
		ov[path] = []byte(strings.Replace(string(src), p[1], p[2], 1))
	}
	return ov, nil
}

// memWatchdog aborts the run before the machine runs out of memory (VC size cap).
func memWatchdog() {
	var ms runtime.MemStats
	for {
		time.Sleep(500 * time.Millisecond)
		runtime.ReadMemStats(&ms)
		if ms.HeapAlloc > memCapBytes() {
			fmt.Println("FATAL: VC generation exceeded the 10 GiB memory cap")
			if os.Getenv("GOVC_DEBUG") != "" {
				pprof.Lookup("goroutine").WriteTo(os.Stderr, 1)
			}
			cleanupScratch()
			os.Exit(3)
		}
	}
}

func memCapBytes() uint64 {
	if os.Getenv("GOVC_DEBUG") != "" {
		return 2 << 30
	}
	return 10 << 30
}

// modelScalars extracts (name, value) pairs of nullary definitions from a solver model.
func modelScalars(model string) [][2]string {
	var out [][2]string
	re := regexp.MustCompile(`\(define-fun ([^ ]+) \(\) (Int|Bool|Real)\s+([^\n]+)\)`)
	for _, m := range re.FindAllStringSubmatch(model, -1) {
		out = append(out, [2]string{m[1], strings.TrimSpace(m[3])})
	}
	return out
}

// repoDir is the repository under verification (/repo unless GOVC_REPO points at a scratch copy).
func repoDir() string {
	if d := os.Getenv("GOVC_REPO"); d != "" {
		return d
	}
	return "/repo"
}

// cmdStability re-proves every obligation under several solver seeds (single attempt, quick timeout) and lists the
// obligations whose best solver needs more than a quarter of the timeout, or that fail, under some seed: these are the
// ones that turn into alarms on a slower or busier machine (DESIGN §9 "slow queries are the unstable ones").
func cmdStability(args []string) int {
	fs := flag.NewFlagSet("stability", flag.ExitOnError)
	unit := fs.String("unit", "", "substring filter on unit names")
	nseeds := fs.Int("seeds", 3, "number of seeds (1..n)")
	timeout := fs.Int("timeout", 15000, "per-query timeout (ms)")
	fs.Parse(args)
	w, err := loadWorld(repoDir(), nil)
	if err != nil {
		fmt.Println("load error:", err)
		return 2
	}
	bad := 0
	for _, u := range collectUnits(w) {
		if *unit != "" && !strings.Contains(u.Name, *unit) {
			continue
		}
		ex, refused := buildVC(w, u)
		if refused != "" {
			fmt.Printf("REFUSED %s\n", u.Name)
			continue
		}
		type res struct {
			ob   *Obligation
			seed int
			st   string
			secs float64
		}
		worst := map[string]float64{}
		fails := map[string][]string{}
		var mu sync.Mutex
		for sd := 1; sd <= *nseeds; sd++ {
			solverSeed = sd
			work := make(chan int)
			var wg sync.WaitGroup
			for k := 0; k < 5; k++ {
				wg.Add(1)
				go func() {
					defer wg.Done()
					for i := range work {
						ob := ex.obls[i]
						r := solve(ex.queryFor(ob), fmt.Sprintf("stab.%s.%d.%d", sanitize(u.Name), ob.Index, sd), *timeout, false, false)
						mu.Lock()
						if r.Status != "unsat" {
							fails[ob.Label] = append(fails[ob.Label], fmt.Sprintf("seed %d: %s", sd, r.Status))
						} else if r.Secs > worst[ob.Label] {
							worst[ob.Label] = r.Secs
						}
						mu.Unlock()
					}
				}()
			}
			for i, ob := range ex.obls {
				if !ob.ExpectSat {
					work <- i
				}
			}
			close(work)
			wg.Wait()
		}
		_ = res{}
		for l, f := range fails {
			fmt.Printf("UNSTABLE %s#%s %v\n", u.Name, l, f)
			bad++
		}
		for l, t := range worst {
			if t > float64(*timeout)/4000.0 {
				fmt.Printf("SLOW     %s#%s worst %.1fs\n", u.Name, l, t)
				bad++
			}
		}
		fmt.Printf("unit %s: %d obligations x %d seeds\n", u.Name, len(ex.obls), *nseeds)
	}
	if bad > 0 {
		return 1
	}
	return 0
}
