package main

import (
	"flag"
	"fmt"
	"os"
	"strings"
	"time"
)

func main() {
	if len(os.Args) < 2 {
		fmt.Println("usage: govc verify|units|check ...")
		os.Exit(2)
	}
	defer cleanupScratch()
	switch os.Args[1] {
	case "verify":
		cmdVerify(os.Args[2:])
	case "units":
		w, err := loadWorld("/repo", nil)
		if err != nil {
			fmt.Println(err)
			os.Exit(2)
		}
		for _, u := range collectUnits(w) {
			fmt.Println(u.Name)
		}
	default:
		fmt.Println("unknown command")
		os.Exit(2)
	}
}

func cmdVerify(args []string) {
	fs := flag.NewFlagSet("verify", flag.ExitOnError)
	unit := fs.String("unit", "", "substring filter on unit names")
	thorough := fs.Bool("thorough", false, "all solvers, one query per obligation")
	timeout := fs.Int("timeout", 20000, "per-query timeout (ms)")
	keep := fs.String("keep", "", "directory for failing queries")
	verbose := fs.Bool("v", false, "list every obligation")
	dump := fs.String("dump", "", "dump the full VC of matching units into this directory")
	fs.Parse(args)
	t0 := time.Now()
	w, err := loadWorld("/repo", nil)
	if err != nil {
		fmt.Println("load error:", err)
		os.Exit(2)
	}
	fmt.Printf("loaded in %.1fs\n", time.Since(t0).Seconds())
	fail := 0
	for _, u := range collectUnits(w) {
		if *unit != "" && !strings.Contains(u.Name, *unit) {
			continue
		}
		r := verifyUnit(w, u, Options{Thorough: *thorough, TimeoutMs: *timeout})
		if r.Refused != "" {
			fmt.Printf("REFUSED %s: %s\n", u.Name, r.Refused)
			fail++
			continue
		}
		ok, bad := 0, 0
		for _, ob := range r.Obls {
			if ob.ok() {
				ok++
			} else {
				bad++
			}
		}
		fmt.Printf("%-50s obligations=%d ok=%d failed=%d vacuity=%s %.1fs\n", u.Name, len(r.Obls), ok, bad, r.Vacuity, r.Secs)
		for _, ob := range r.Obls {
			if !ob.ok() || *verbose {
				st := "?"
				if ob.Result != nil {
					st = fmt.Sprintf("%s %s %.2fs batch=%v %v ", ob.Result.Status, ob.Result.Solver, ob.Result.Secs, ob.Result.Batch, ob.Result.Answers) + ob.Result.Output
					if len(st) > 300 {
						st = st[:300]
					}
				}
				fmt.Printf("   %-8s %-40s %s | %s | %s\n", ob.Kind, ob.Label, ob.Pos, ob.Text, strings.ReplaceAll(st, "\n", " "))
				if !ob.ok() && *keep != "" {
					keepQuery(*keep, r.Ex, ob)
				}
			}
		}
		if *dump != "" {
			os.MkdirAll(*dump, 0o755)
			var b strings.Builder
			b.WriteString(r.Ex.header())
			for _, it := range r.Ex.items {
				if it.Ob != nil {
					b.WriteString("; OBLIGATION " + it.Ob.Label + "\n;   " + it.Ob.Goal + "\n")
				} else {
					b.WriteString("(assert " + it.Assume + ")\n")
				}
			}
			os.WriteFile(*dump+"/"+sanitize(u.Name)+".vc", []byte(b.String()), 0o644)
		}
		for k := range r.Ex.used {
			if strings.HasPrefix(k, "UNMODELLED") || *verbose {
				fmt.Println("   used:", k)
			}
		}
		fail += bad
	}
	if fail > 0 {
		os.Exit(1)
	}
}
