package main

// Rename tolerance. Contracts name parameters and local variables of the functions they are attached to
// (loop invariants cannot avoid it). A harmless rename of such a variable would leave the clause unresolvable and
// the unit undecided. To keep that from becoming a false alarm, /verif/baseline_names.json records, for every
// function under contract, the declared variables in source order with their types (written by `govc names` on the
// tree the contracts were developed against). When a name a contract was written with no longer exists in the
// function, and the function still declares the same number of variables of that variable's type, the variable in
// the same position among those of that type is taken to be the renamed one and the clause identifier is
// rewritten. The mapping only chooses which program variable a specification identifier denotes; every obligation
// is still generated from the current code and discharged by the solver, so a wrong guess can only make an
// obligation fail, never pass vacuously, except that a property clause stated over locals then speaks about the
// guessed variable — every applied mapping is therefore listed in the evidence ("used: renamed ...").

import (
	"encoding/json"
	"fmt"
	"go/ast"
	"go/types"
	"os"
	"regexp"
	"sort"
	"strings"

	"golang.org/x/tools/go/packages"
	"golang.org/x/tools/go/ssa"
)

type nameEntry struct {
	Name string `json:"n"`
	Type string `json:"t"`
	// for the key variable of a range statement: closure path ("" = the declared function, "$1", "$2$1", ...) and the
	// 1-based ordinal of the loop among the loops of that function, in source order
	RangeIn   string `json:"rin,omitempty"`
	RangeLoop int    `json:"rl,omitempty"`
	// for a loop-carried variable (a phi at a loop header): closure path, loop ordinal and position among the
	// header's phis of the same type
	PhiIn   string `json:"pin,omitempty"`
	PhiLoop int    `json:"pl,omitempty"`
	PhiIdx  int    `json:"pi,omitempty"`
	PhiOf   int    `json:"pn,omitempty"` // number of phis of that type at that header
	PhiAllIdx int  `json:"pai,omitempty"` // position among all named phis of the header (type-blind fallback)
	PhiAllOf  int  `json:"pan,omitempty"`
}

const baselineNamesFile = "/verif/baseline_names.json"

func outermost(fn *ssa.Function) *ssa.Function {
	for fn.Parent() != nil {
		fn = fn.Parent()
	}
	if o := fn.Origin(); o != nil {
		return o
	}
	return fn
}

func (w *World) ppkgOf(fn *ssa.Function) *packages.Package {
	if fn.Pkg == nil {
		return nil
	}
	var found *packages.Package
	packages.Visit(w.ppkgs, nil, func(p *packages.Package) {
		if p.Types == fn.Pkg.Pkg {
			found = p
		}
	})
	return found
}

// declaredNames lists the variables declared in fn (receiver, parameters, results, locals, closure parameters and
// locals), in source order.
func (w *World) declaredNames(fn *ssa.Function) []nameEntry {
	fn = outermost(fn)
	syn := fn.Syntax()
	if syn == nil {
		return nil
	}
	pp := w.ppkgOf(fn)
	if pp == nil || pp.TypesInfo == nil {
		return nil
	}
	qual := func(p *types.Package) string { return p.Name() }
	type ent struct {
		pos int
		e   nameEntry
	}
	var es []ent
	// range keys: closure path and loop ordinal
	rk := map[*ast.Ident][2]interface{}{}
	var walk func(n ast.Node, path string)
	walk = func(root ast.Node, path string) {
		loops, lits := 0, 0
		ast.Inspect(root, func(n ast.Node) bool {
			switch x := n.(type) {
			case *ast.FuncLit:
				if n == root {
					return true
				}
				lits++
				walk(x, fmt.Sprintf("%s$%d", path, lits))
				return false
			case *ast.ForStmt:
				loops++
			case *ast.RangeStmt:
				loops++
				if id, ok := x.Key.(*ast.Ident); ok && x.Tok.String() == ":=" {
					rk[id] = [2]interface{}{path, loops}
				}
			}
			return true
		})
	}
	walk(syn, "")
	ast.Inspect(syn, func(n ast.Node) bool {
		id, ok := n.(*ast.Ident)
		if !ok || id.Name == "_" {
			return true
		}
		obj, ok := pp.TypesInfo.Defs[id].(*types.Var)
		if !ok || obj == nil || obj.IsField() {
			return true
		}
		ne := nameEntry{Name: id.Name, Type: types.TypeString(obj.Type(), qual)}
		if r, ok := rk[id]; ok {
			ne.RangeIn, ne.RangeLoop = r[0].(string), r[1].(int)
		}
		es = append(es, ent{int(id.Pos()), ne})
		return true
	})
	// implicit objects of type switches (x := y.(type)) are not in Defs; they are rare in contracts and skipped
	sort.SliceStable(es, func(i, j int) bool { return es[i].pos < es[j].pos })
	out := make([]nameEntry, len(es))
	for i, e := range es {
		out[i] = e.e
	}
	return out
}

func cmdNames() int {
	w, err := loadWorld(repoDir(), nil)
	if err != nil {
		fmt.Println(err)
		return 2
	}
	out := map[string][]nameEntry{}
	for _, c := range w.allContracts {
		if c.Fn == nil || !strings.HasPrefix(pkgPathOf(c.Fn), w.module) {
			continue
		}
		k := outermost(c.Fn).String()
		if _, ok := out[k]; !ok {
			out[k] = append(w.declaredNames(c.Fn), loopPhis(outermost(c.Fn), "", func(p *types.Package) string { return p.Name() })...)
		}
	}
	b, _ := json.MarshalIndent(out, "", " ")
	if err := os.WriteFile(baselineNamesFile, append(b, '\n'), 0o644); err != nil {
		fmt.Println(err)
		return 2
	}
	fmt.Printf("wrote %s (%d functions)\n", baselineNamesFile, len(out))
	return 0
}

func pkgPathOf(fn *ssa.Function) string {
	f := outermost(fn)
	if f.Pkg != nil {
		return f.Pkg.Pkg.Path()
	}
	return ""
}

// applyRenames rewrites contract identifiers of renamed variables (see the comment at the top of this file).
func (w *World) applyRenames() {
	b, err := os.ReadFile(baselineNamesFile)
	if err != nil {
		return
	}
	base := map[string][]nameEntry{}
	if json.Unmarshal(b, &base) != nil {
		return
	}
	aliasOf := map[string]map[string]string{}
	w.renames = map[*Contract][]string{}
	w.rangeKeys = map[string]map[string]nameEntry{}
	for k, es := range base {
		for _, e := range es {
			if e.RangeLoop > 0 {
				if w.rangeKeys[k] == nil {
					w.rangeKeys[k] = map[string]nameEntry{}
				}
				if _, dup := w.rangeKeys[k][e.Name]; dup {
					// the same key name used by several range loops: ambiguous, no fallback
					w.rangeKeys[k][e.Name] = nameEntry{}
				} else {
					w.rangeKeys[k][e.Name] = e
				}
			}
		}
	}
	for _, c := range w.allContracts {
		if c.Fn == nil {
			continue
		}
		k := outermost(c.Fn).String()
		al, done := aliasOf[k]
		if !done {
			al = computeAlias(base[k], append(w.declaredNames(c.Fn), loopPhis(outermost(c.Fn), "", func(p *types.Package) string { return p.Name() })...))
			aliasOf[k] = al
		}
		if len(al) == 0 {
			continue
		}
		var notes []string
		ks := make([]string, 0, len(al))
		for o := range al {
			ks = append(ks, o)
		}
		sort.Strings(ks)
		for _, o := range ks {
			notes = append(notes, fmt.Sprintf("renamed variable tolerated in %s: contract identifier %q now denotes %q (same position among the declared variables of its type)", k, o, al[o]))
		}
		w.renames[c] = notes
		renameContract(c, al)
	}
}

func computeAlias(baseAll, curAll []nameEntry) map[string]string {
	var base, cur, bphi, cphi []nameEntry
	for _, e := range baseAll {
		if e.PhiLoop > 0 {
			bphi = append(bphi, e)
		} else {
			base = append(base, e)
		}
	}
	for _, e := range curAll {
		if e.PhiLoop > 0 {
			cphi = append(cphi, e)
		} else {
			cur = append(cur, e)
		}
	}
	if len(base) == 0 || len(cur) == 0 {
		return nil
	}
	inBase, inCur := map[string]bool{}, map[string]bool{}
	for _, e := range base {
		inBase[e.Name] = true
	}
	for _, e := range cur {
		inCur[e.Name] = true
	}
	al := map[string]string{}
	used := map[string]bool{}
	// loop-carried variables first: same loop, same type, same position among the header's phis of that type
	for _, e := range bphi {
		if inCur[e.Name] || al[e.Name] != "" {
			continue
		}
		for _, c := range cphi {
			if c.PhiIn == e.PhiIn && c.PhiLoop == e.PhiLoop && c.Type == e.Type && c.PhiIdx == e.PhiIdx && c.PhiOf == e.PhiOf && !inBase[c.Name] && !used[c.Name] {
				al[e.Name] = c.Name
				used[c.Name] = true
				break
			}
		}
	}
	// type-blind fallback for loop-carried variables (a counter narrowed or widened): same loop, same position among
	// all named phis of the header, same number of them
	for _, e := range bphi {
		if inCur[e.Name] || al[e.Name] != "" || e.PhiAllOf == 0 {
			continue
		}
		for _, c := range cphi {
			if c.PhiIn == e.PhiIn && c.PhiLoop == e.PhiLoop && c.PhiAllIdx == e.PhiAllIdx && c.PhiAllOf == e.PhiAllOf && !inBase[c.Name] && !used[c.Name] {
				al[e.Name] = c.Name
				used[c.Name] = true
				break
			}
		}
	}
	for i, e := range base {
		if inCur[e.Name] || al[e.Name] != "" {
			continue
		}
		// position of this declaration among the baseline declarations of the same type
		j, nb := 0, 0
		for k, x := range base {
			if x.Type == e.Type {
				if k < i {
					j++
				}
				nb++
			}
		}
		var ct []nameEntry
		for _, x := range cur {
			if x.Type == e.Type {
				ct = append(ct, x)
			}
		}
		if len(ct) != nb {
			continue
		}
		cand := ct[j].Name
		if inBase[cand] || used[cand] {
			continue
		}
		al[e.Name] = cand
		used[cand] = true
	}
	return al
}

func renameContract(c *Contract, al map[string]string) {
	seen := map[*Clause]bool{}
	do := func(cls []*Clause) {
		for _, cl := range cls {
			if cl == nil || seen[cl] {
				continue
			}
			seen[cl] = true
			renameExpr(cl.Expr, al)
		}
	}
	do(c.Requires)
	do(c.Ensures)
	do(c.AssumedEnsures)
	do(c.Covers)
	do(c.Lemmas)
	do(c.AtUnlock)
	for _, cls := range c.Loops {
		do(cls)
	}
	for _, cls := range c.Steps {
		do(cls)
	}
	for _, cl := range c.Decreases {
		do([]*Clause{cl})
	}
	for _, cls := range c.Before {
		do(cls)
	}
	for i := range c.OnUnlock {
		do([]*Clause{c.OnUnlock[i].Expr})
		c.OnUnlock[i].Mutex = renameWords(c.OnUnlock[i].Mutex, al)
	}
	for _, m := range c.Monitors {
		do(m.Invs)
		m.Mutex = renameWords(m.Mutex, al)
		for i := range m.Protects {
			m.Protects[i] = renameWords(m.Protects[i], al)
		}
	}
	for i := range c.Modifies {
		if !strings.HasPrefix(strings.TrimSpace(c.Modifies[i]), "ghost ") {
			c.Modifies[i] = renameWords(c.Modifies[i], al)
		}
	}
	for k, v := range c.Terminates {
		c.Terminates[k] = renameWords(v, al)
	}
}

var wordRe = regexp.MustCompile(`[A-Za-z_][A-Za-z_0-9]*`)

func renameWords(s string, al map[string]string) string {
	// only the leading element of a dotted path is a variable: a word preceded by '.' is a field name
	var b strings.Builder
	last := 0
	for _, loc := range wordRe.FindAllStringIndex(s, -1) {
		b.WriteString(s[last:loc[0]])
		wd := s[loc[0]:loc[1]]
		if n, ok := al[wd]; ok && (loc[0] == 0 || s[loc[0]-1] != '.') {
			wd = n
		}
		b.WriteString(wd)
		last = loc[1]
	}
	b.WriteString(s[last:])
	return b.String()
}

func renameExpr(e ast.Expr, al map[string]string) {
	ast.Inspect(e, func(n ast.Node) bool {
		switch x := n.(type) {
		case *ast.SelectorExpr:
			renameExpr(x.X, al)
			return false // never the selected field/method name
		case *ast.KeyValueExpr:
			renameExpr(x.Value, al)
			return false
		case *ast.Ident:
			if nn, ok := al[x.Name]; ok {
				x.Name = nn
			}
		}
		return true
	})
}

// droppedRangeKey: name was, on the tree the contracts were written against, the key variable of a range loop of the
// function fr executes (same closure), and no variable of that name exists any more (`for i, x := range s` rewritten as
// `for _, x := range s`): the identifier then denotes that loop's index. Returns the loop ordinal or 0.
func (w *World) droppedRangeKey(fn *ssa.Function, name string) int {
	if w.rangeKeys == nil {
		return 0
	}
	out := outermost(fn)
	e, ok := w.rangeKeys[out.String()][name]
	if !ok || e.RangeLoop == 0 {
		return 0
	}
	path := ""
	for f := fn; f.Parent() != nil; f = f.Parent() {
		nm := f.Name()
		path = nm[strings.LastIndex(nm, "$"):] + path
	}
	if path != e.RangeIn {
		return 0
	}
	return e.RangeLoop
}

// loopPhis lists the named loop-carried variables of fn and of the closures nested in it.
func loopPhis(fn *ssa.Function, path string, qual types.Qualifier) []nameEntry {
	var out []nameEntry
	if len(fn.Blocks) > 0 {
		li := computeLoops(fn)
		for ord, h := range li.headers {
			byType := map[string][]*ssa.Phi{}
			var order []string
			allIdx := map[*ssa.Phi]int{}
			for _, ins := range h.Instrs {
				phi, ok := ins.(*ssa.Phi)
				if !ok {
					break
				}
				if phi.Comment == "" || phi.Comment == "rangeindex" || strings.ContainsAny(phi.Comment, " &|.") {
					continue
				}
				t := types.TypeString(phi.Type(), qual)
				if _, seen := byType[t]; !seen {
					order = append(order, t)
				}
				byType[t] = append(byType[t], phi)
				allIdx[phi] = len(allIdx) + 1
			}
			for _, t := range order {
				for i, phi := range byType[t] {
					out = append(out, nameEntry{Name: phi.Comment, Type: t, PhiIn: path, PhiLoop: ord + 1, PhiIdx: i + 1, PhiOf: len(byType[t]), PhiAllIdx: allIdx[phi], PhiAllOf: len(allIdx)})
				}
			}
		}
	}
	for i, a := range fn.AnonFuncs {
		out = append(out, loopPhis(a, fmt.Sprintf("%s$%d", path, i+1), qual)...)
	}
	return out
}
