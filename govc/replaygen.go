package main

func replayGeneric(w *World, r *UnitResult, ob *Obligation) map[string]interface{} {
	return map[string]interface{}{"confirmed": false, "note": "no replay generator for this obligation shape yet; the solver model is in solver_output"}
}

func replayBPF(w *World, ob bpfOb) map[string]interface{} {
	return map[string]interface{}{"confirmed": false, "note": "bpf replay not implemented yet; the solver model (frame bytes) is in solver_output"}
}
