package main

import (
	"encoding/json"
	"fmt"
	"os"
	"os/exec"
	"path/filepath"
	"regexp"
	"strconv"
	"strings"
	"time"
)


// replayBPF replays a counterexample of a cBPF lemma on the real program: the frame bytes, the frame length and the
// filter configuration are read from the solver's model, the program taken from the source under test is run on the
// x/net/bpf virtual machine inside an in-package Go test injected with `go test -overlay` (nothing is written into the
// repository), and its verdict is compared with the reference predicate's value in the same model.
func replayBPF(w *World, ob bpfOb) map[string]interface{} {
	out := map[string]interface{}{"confirmed": false}
	// ask the solver for the concrete values
	var gv strings.Builder
	gv.WriteString("(get-value (len")
	for _, k := range []string{"k_srcAddr", "k_dstAddr", "k_srcPort", "k_dstPort"} {
		if strings.Contains(ob.Query, "(declare-const "+k+" ") {
			gv.WriteString(" " + k)
		}
	}
	const nBytes = 160
	for i := 0; i < nBytes; i++ {
		gv.WriteString(fmt.Sprintf(" (select pkt #x%08x)", i))
	}
	gv.WriteString("))\n(get-value (" + ob.Acc + "))\n(get-value (" + ob.Ref + "))\n")
	tmp, err := os.MkdirTemp("", "govc-bpf-replay")
	if err != nil {
		out["note"] = err.Error()
		return out
	}
	defer os.RemoveAll(tmp)
	qf := filepath.Join(tmp, "q.smt2")
	os.WriteFile(qf, []byte("(set-option :produce-models true)\n"+ob.Query+"(check-sat)\n"+gv.String()), 0o644)
	res, _ := exec.Command("z3-new", "-T:60", qf).CombinedOutput()
	txt := string(res)
	if !strings.HasPrefix(strings.TrimSpace(txt), "sat") {
		out["note"] = "could not re-obtain a model for value extraction: " + trunc(txt, 300)
		return out
	}
	val := func(name string) (uint64, bool) {
		re := regexp.MustCompile(`\(` + regexp.QuoteMeta(name) + `\s+#x([0-9a-fA-F]+)\)`)
		m := re.FindStringSubmatch(txt)
		if m == nil {
			return 0, false
		}
		v, _ := strconv.ParseUint(m[1], 16, 64)
		return v, true
	}
	ln, _ := val("len")
	frame := make([]byte, nBytes)
	for i := 0; i < nBytes; i++ {
		v, _ := val(fmt.Sprintf("(select pkt #x%08x)", i))
		frame[i] = byte(v)
	}
	if ln > nBytes {
		// bytes beyond the inspected prefix do not matter to these programs; keep the length, pad with zeros
		if ln > 65535 {
			ln = 65535
		}
		frame = append(frame, make([]byte, int(ln)-nBytes)...)
	}
	frame = frame[:ln]
	cfg := map[string]uint64{}
	for _, k := range []string{"k_srcAddr", "k_dstAddr", "k_srcPort", "k_dstPort"} {
		if v, ok := val(k); ok {
			cfg[k] = v
		}
	}
	prog := strings.TrimSuffix(strings.TrimSuffix(strings.TrimPrefix(ob.Name, "packets."), "#C12.exact"), "#C02.captures")
	prog = strings.TrimSuffix(prog, "#C12.covers.hbh")
	var hexs []string
	for _, b := range frame {
		hexs = append(hexs, fmt.Sprintf("0x%02x", b))
	}
	var progExpr string
	if prog == "GenerateTCP4Filter" {
		ip := func(v uint64) string {
			return fmt.Sprintf("netip.AddrFrom4([4]byte{%d, %d, %d, %d})", byte(v>>24), byte(v>>16), byte(v>>8), byte(v))
		}
		progExpr = fmt.Sprintf("func() []bpf.RawInstruction { r, err := (FilterConfig{Src: netip.AddrPortFrom(%s, %d), Dst: netip.AddrPortFrom(%s, %d)}).GenerateTCP4Filter(); if err != nil { panic(err) }; return r }()",
			ip(cfg["k_srcAddr"]), cfg["k_srcPort"], ip(cfg["k_dstAddr"]), cfg["k_dstPort"])
	} else {
		progExpr = prog
	}
	test := `package packets

import (
	"fmt"
	"net/netip"
	"testing"

	"golang.org/x/net/bpf"
)

var _ = netip.AddrFrom4

func TestGovcReplayBPF(t *testing.T) {
	raw := ` + progExpr + `
	ins, ok := bpf.Disassemble(raw)
	if !ok {
		t.Fatal("program does not disassemble")
	}
	vm, err := bpf.NewVM(ins)
	if err != nil {
		t.Fatal(err)
	}
	frame := []byte{` + strings.Join(hexs, ", ") + `}
	n, err := vm.Run(frame)
	if err != nil {
		t.Fatal(err)
	}
	fmt.Printf("GOVC-REPLAY accepted=%v\n", n > 0)
}
`
	tf := filepath.Join(tmp, "zz_govc_replay_test.go")
	os.WriteFile(tf, []byte(test), 0o644)
	repo := repoDir()
	ov, _ := json.Marshal(map[string]interface{}{"Replace": map[string]string{filepath.Join(repo, "packets", "zz_govc_replay_test.go"): tf}})
	ovf := filepath.Join(tmp, "ov.json")
	os.WriteFile(ovf, ov, 0o644)
	cmd := exec.Command("go", "test", "-overlay", ovf, "-vet=off", "-count=1", "-timeout", "60s", "-v", "-run", "TestGovcReplayBPF", "./packets")
	cmd.Dir = repo
	cmd.Env = append(os.Environ(), "GOFLAGS=-mod=mod", "GOPROXY=off")
	done := make(chan struct{})
	var log []byte
	go func() { log, _ = cmd.CombinedOutput(); close(done) }()
	select {
	case <-done:
	case <-time.After(120 * time.Second):
		if cmd.Process != nil {
			cmd.Process.Kill()
		}
		out["note"] = "replay timed out"
		return out
	}
	out["replay_log"] = trunc(string(log), 2000)
	out["frame_hex"] = fmt.Sprintf("%x", frame)
	out["frame_len"] = ln
	out["config"] = cfg
	m := regexp.MustCompile(`GOVC-REPLAY accepted=(true|false)`).FindStringSubmatch(string(log))
	if m == nil {
		out["note"] = "replay test did not run to completion"
		return out
	}
	accepted := m[1] == "true"
	out["program_accepts_on_real_vm"] = accepted
	// the last two get-value answers are the model's view of "program accepts" and of the reference predicate
	bools := regexp.MustCompile(`\)\s+(true|false)\)\)`).FindAllStringSubmatch(txt, -1)
	if len(bools) < 2 {
		out["note"] = "could not read the model's verdicts"
		return out
	}
	modelAcc := bools[len(bools)-2][1] == "true"
	refVal := bools[len(bools)-1][1] == "true"
	out["model_program_accepts"] = modelAcc
	out["reference_predicate_value"] = refVal
	out["go_test"] = test
	if accepted != modelAcc {
		out["note"] = "the real VM disagrees with the verifier's semantics of the program on this frame: the counterexample does not replay (machinery fault, not a finding)"
		return out
	}
	if accepted == refVal {
		out["note"] = "real program and reference predicate agree on this frame: the counterexample does not replay"
		return out
	}
	out["confirmed"] = true
	out["note"] = fmt.Sprintf("real program run on the x/net/bpf VM: accepted=%v while the property's reference predicate is %v for this frame and configuration", accepted, refVal)
	return out
}
