package main

import (
	"fmt"
	"go/token"
	"go/types"
	"math/big"

	"golang.org/x/tools/go/ssa"
)

func (fr *frame) set(v ssa.Value, x Val) {
	x.T = v.Type()
	ex := fr.ex
	if ex.pure == 0 {
		// SSA values are always bound to names so that quantifier patterns can match them
		ls := leaves(x.T)
		n := Val{T: x.T, L: make([]string, len(x.L)), P: x.P, F: x.F}
		for i := range x.L {
			srt := sInt
			if i < len(ls) {
				srt = ls[i].Sort
			}
			n.L[i] = ex.nameMin(v.Name(), x.L[i], srt, 0)
		}
		if x.P != nil && x.P.Idx != "" {
			p := *x.P
			p.Idx = ex.nameMin(v.Name()+"_idx", p.Idx, sInt, 0)
			n.P = &p
		}
		fr.vals[v] = n
		return
	}
	fr.vals[v] = x
}

// execInstr executes one non-phi instruction. It returns true after a terminator.
func (fr *frame) execInstr(ins ssa.Instruction, st *State, reach *string) bool {
	ex := fr.ex
	b := fr.curBlk
	switch x := ins.(type) {
	case *ssa.DebugRef:
		return false
	case *ssa.Alloc:
		et := x.Type().Underlying().(*types.Pointer).Elem()
		fr.set(x, ex.allocObject(st, et))
	case *ssa.BinOp:
		fr.set(x, fr.binop(x, fr.val(x.X), fr.val(x.Y), *reach))
	case *ssa.UnOp:
		if x.Op == token.MUL {
			fr.monitorAccessAt(x, x.X, st, *reach)
		}
		fr.unop(x, st, reach)
	case *ssa.Call:
		res := fr.call(&x.Call, st, reach, x)
		if x.Type() != nil {
			if tup, ok := x.Type().(*types.Tuple); ok && tup.Len() == 0 {
				break
			}
			fr.set(x, res)
		}
	case *ssa.ChangeInterface:
		v := fr.val(x.X)
		fr.set(x, Val{L: v.L})
	case *ssa.ChangeType:
		v := fr.val(x.X)
		fr.set(x, Val{L: v.L, P: v.P, F: v.F})
	case *ssa.Convert:
		fr.set(x, fr.convert(x.X.Type(), x.Type(), fr.val(x.X), st))
	case *ssa.Extract:
		tv := fr.val(x.Tuple)
		tt := x.Tuple.Type().(*types.Tuple)
		lo, hi := tupleRange(tt, x.Index)
		fr.set(x, Val{L: tv.L[lo:hi]})
	case *ssa.Field:
		sv := fr.val(x.X)
		lo, hi := fieldRange(x.X.Type(), x.Field)
		fr.set(x, Val{L: sv.L[lo:hi]})
	case *ssa.FieldAddr:
		p := fr.val(x.X)
		pi := ptrInfoOf(p)
		if pi.Kind == pkObj && len(pi.Path) == 0 || pi.Kind == pkCell {
			fr.safety(x, *reach, not(eq(p.L[0], "0")), "nil dereference: "+x.X.Name())
		}
		np := *pi
		np.Path = append(append([]int{}, pi.Path...), x.Field)
		if pi.Kind == pkCell {
			panic(unsupported("FieldAddr on cell pointer " + p.T.String()))
		}
		fr.guardObligation(x, p, st, *reach)
		fr.set(x, Val{L: p.L, P: &np})
	case *ssa.IndexAddr:
		fr.indexAddr(x, st, *reach)
	case *ssa.Index:
		xv := fr.val(x.X)
		iv := fr.val(x.Index)
		if bt, ok := x.X.Type().Underlying().(*types.Basic); ok && bt.Info()&types.IsString != 0 {
			ex.declareFun("str.at", []string{sStr, sInt}, sInt)
			ex.declareFun("str.len", []string{sStr}, sInt)
			fr.safety(x, *reach, and(app("<=", "0", iv.L[0]), app("<", iv.L[0], app("str.len", xv.L[0]))), "string index out of range")
			fr.set(x, scalar(x.Type(), app("str.at", xv.L[0], iv.L[0])))
			break
		}
		panic(unsupported("Index on array value"))
	case *ssa.Lookup:
		fr.monitorAccessAt(x, x.X, st, *reach)
		fr.lookup(x, st, *reach)
	case *ssa.MakeChan:
		fr.set(x, Val{L: []string{ex.alloc(st)}})
	case *ssa.MakeClosure:
		fn := x.Fn.(*ssa.Function)
		bind := make([]Val, len(x.Bindings))
		for i, bv := range x.Bindings {
			bind[i] = fr.val(bv)
		}
		fr.vals[x] = Val{T: x.Type(), L: []string{ex.alloc(st)}, F: &FuncInfo{Fn: fn, Bind: bind}}
	case *ssa.MakeInterface:
		fr.set(x, ex.makeInterface(st, fr.val(x.X), x.X.Type()))
	case *ssa.MakeMap:
		fr.set(x, Val{L: []string{ex.mapNew(st, x.Type().Underlying().(*types.Map))}})
	case *ssa.MakeSlice:
		ln := fr.val(x.Len).L[0]
		cp := fr.val(x.Cap).L[0]
		fr.safety(x, *reach, and(app("<=", "0", ln), app("<=", ln, cp)), "makeslice: len out of range")
		r := ex.alloc(st)
		ex.zeroArray(st, r, x.Type().Underlying().(*types.Slice).Elem())
		fr.set(x, sliceVal(x.Type(), r, "0", ln, cp))
	case *ssa.MapUpdate:
		fr.monitorAccessAt(x, x.Map, st, *reach)
		m := fr.val(x.Map)
		fr.safety(x, *reach, not(eq(m.L[0], "0")), "assignment to entry in nil map")
		k := fr.val(x.Key)
		ex.mapSet(st, m, ex.mapKeyTerm(x.Map.Type().Underlying().(*types.Map), k), fr.val(x.Value))
	case *ssa.Slice:
		fr.sliceOp(x, st, *reach)
	case *ssa.Store:
		fr.monitorAccessAt(x, x.Addr, st, *reach)
		p := fr.val(x.Addr)
		pi := ptrInfoOf(p)
		if pi.clean() && pi.Kind != pkArr {
			fr.safety(x, *reach, not(eq(p.L[0], "0")), "nil dereference in store")
		}
		v := fr.val(x.Val)
		if v.P != nil && !v.P.clean() {
			// an interior pointer escapes into the heap: it is replaced by a reference to a fresh object with
			// unconstrained contents (reads through the stored value are over-approximated; writes through it are not tracked)
			if !ex.inRepo(fr.fn) {
				ex.used["abstracted: interior pointer stored by dependency code ("+fr.fn.String()+"): reads through it over-approximated, writes through it untracked"] = true
				v = Val{T: v.T, L: []string{ex.alloc(st)}}
			} else {
				panic(unsupported("storing an interior pointer: " + x.String()))
			}
		}
		ex.store(st, p, v)
		if v.F != nil && !ex.discover {
			ex.cellFuncs[cellKey(p)] = v.F
		}
	case *ssa.TypeAssert:
		fr.typeAssert(x, st, *reach)
	case *ssa.Defer:
		fr.defers = append(fr.defers, deferred{instr: x, reach: *reach})
	case *ssa.RunDefers:
		fr.runDefers(st, reach)
	case *ssa.Go:
		fr.goStmt(x, st, reach)
	case *ssa.Send:
		// channel sends carry no tracked state
	case *ssa.Select:
		// select: which ready case is taken is not determined by the tracked state; received values are unconstrained.
		// (Channel contents are not modelled: a select is a nondeterministic choice among its cases.)
		ex.used["abstracted: select statement = nondeterministic choice among its cases, received values unconstrained"] = true
		tup := x.Type().(*types.Tuple)
		var ls []string
		idx := ex.freshConst("selidx", sInt)
		lo := "0"
		if !x.Blocking {
			lo = "(- 1)"
		}
		ex.assume(and(app("<=", lo, idx), app("<", idx, num(int64(len(x.States))))))
		ls = append(ls, idx, ex.freshConst("selok", sBool))
		for i := 2; i < tup.Len(); i++ {
			v := ex.freshVal(tup.At(i).Type(), st, "selrecv")
			ls = append(ls, v.L...)
		}
		if x.Blocking {
			ex.advanceClock(st, *reach)
		}
		fr.set(x, Val{T: tup, L: ls})
	case *ssa.Range, *ssa.Next, *ssa.SliceToArrayPointer, *ssa.MultiConvert:
		panic(unsupported(fmt.Sprintf("instruction %T in %s", ins, fr.fn)))
	case *ssa.If:
		c := fr.val(x.Cond).L[0]
		fr.goTo(b, b.Succs[0], ex.name("e", and(*reach, c), sBool), st)
		fr.goTo(b, b.Succs[1], ex.name("e", and(*reach, not(c)), sBool), st.clone())
		return true
	case *ssa.Jump:
		fr.goTo(b, b.Succs[0], *reach, st)
		return true
	case *ssa.Return:
		vals := make([]Val, len(x.Results))
		for i, r := range x.Results {
			vals[i] = fr.val(r)
			vals[i].T = fr.fn.Signature.Results().At(i).Type()
		}
		if fr.top {
			fr.ex.returnReach = append(fr.ex.returnReach, *reach)
			fr.ex.returnPos = append(fr.ex.returnPos, fr.ex.posOf(x.Pos()))
		}
		fr.checkJoined(*reach)
		fr.checkContrib(*reach)
		fr.rets = append(fr.rets, retPoint{reach: *reach, vals: vals, st: st})
		return true
	case *ssa.Panic:
		fr.safety(x, *reach, "false", "explicit panic")
		return true
	default:
		panic(unsupported(fmt.Sprintf("instruction %T", ins)))
	}
	return false
}

func cellKey(p Val) string {
	pi := ptrInfoOf(p)
	return fmt.Sprintf("%d|%s|%v|%s", pi.Kind, p.L[0], pi.Path, pi.Idx)
}

func isConstTerm(t string) (*big.Int, bool) {
	if len(t) == 0 {
		return nil, false
	}
	s := t
	neg := false
	if len(s) > 4 && s[:3] == "(- " && s[len(s)-1] == ')' {
		s = s[3 : len(s)-1]
		neg = true
	}
	for _, c := range s {
		if c < '0' || c > '9' {
			return nil, false
		}
	}
	b, ok := new(big.Int).SetString(s, 10)
	if !ok {
		return nil, false
	}
	if neg {
		b.Neg(b)
	}
	return b, true
}

func (fr *frame) binop(x *ssa.BinOp, a, b Val, reach string) Val {
	return fr.ex.binopT(x.Op, x.X.Type(), x.Type(), a, b, func(cond, what string) { fr.safety(x, reach, cond, what) })
}

// binopT implements Go binary operators on symbolic values.
func (ex *Exec) binopT(op token.Token, opT types.Type, resT types.Type, a, b Val, safety func(cond, what string)) Val {
	switch op {
	case token.EQL:
		return boolVal(ex.valEq(a, b))
	case token.NEQ:
		return boolVal(not(ex.valEq(a, b)))
	}
	bt, _ := opT.Underlying().(*types.Basic)
	if bt == nil {
		panic(unsupported("binop on " + opT.String()))
	}
	x, y := a.L[0], b.L[0]
	switch {
	case bt.Info()&types.IsString != 0:
		switch op {
		case token.ADD:
			ex.declareFun("str.cat", []string{sStr, sStr}, sStr)
			ex.declareFun("str.after", []string{sStr, sStr}, sStr)
			// concatenation is injective in its second argument (str.after strips the prefix again)
			if !ex.strCatAxiom {
				ex.strCatAxiom = true
				ex.preAssume = append(ex.preAssume, "(forall ((p!s Str) (y!s Str)) (! (= (str.after p!s (str.cat p!s y!s)) y!s) :pattern ((str.cat p!s y!s))))")
			}
			return scalar(resT, app("str.cat", x, y))
		case token.LSS, token.GTR, token.LEQ, token.GEQ:
			ex.declareFun("str.lt", []string{sStr, sStr}, sBool)
			switch op {
			case token.LSS:
				return boolVal(app("str.lt", x, y))
			case token.GTR:
				return boolVal(app("str.lt", y, x))
			case token.LEQ:
				return boolVal(not(app("str.lt", y, x)))
			default:
				return boolVal(not(app("str.lt", x, y)))
			}
		}
	case bt.Info()&types.IsFloat != 0:
		switch op {
		case token.ADD:
			return scalar(resT, app("+", x, y))
		case token.SUB:
			return scalar(resT, app("-", x, y))
		case token.MUL:
			return scalar(resT, app("*", x, y))
		case token.QUO:
			return scalar(resT, app("/", x, y))
		case token.LSS:
			return boolVal(app("<", x, y))
		case token.LEQ:
			return boolVal(app("<=", x, y))
		case token.GTR:
			return boolVal(app(">", x, y))
		case token.GEQ:
			return boolVal(app(">=", x, y))
		}
	case bt.Info()&types.IsBoolean != 0:
		switch op {
		case token.LAND, token.AND:
			return boolVal(and(x, y))
		case token.LOR, token.OR:
			return boolVal(or(x, y))
		}
	case bt.Info()&types.IsInteger != 0:
		_, signed, _ := intBits(opT)
		switch op {
		case token.ADD:
			return scalar(resT, wrapInt(resT, app("+", x, y)))
		case token.SUB:
			return scalar(resT, wrapInt(resT, app("-", x, y)))
		case token.MUL:
			if _, cx := isConstTerm(x); !cx {
				if _, cy := isConstTerm(y); !cy && ex.pure == 0 {
					// product of two unknowns in executed code: kept uninterpreted (nonlinear terms make every other
					// obligation of the unit undecidable for the solvers); only its sign is known
					ex.declareFun("nl.mul", []string{sInt, sInt}, sInt)
					ex.used["uninterpreted: product of two non-constant integers in executed code"] = true
					m := ex.name("nlmul", app("nl.mul", x, y), sInt)
					ex.assume(and(imp(or(eq(x, "0"), eq(y, "0")), eq(m, "0")), imp(and(app(">", x, "0"), app(">", y, "0")), app(">", m, "0"))))
					return scalar(resT, wrapInt(resT, m))
				}
			}
			return scalar(resT, wrapInt(resT, app("*", x, y)))
		case token.QUO, token.REM:
			if safety != nil {
				safety(not(eq(y, "0")), "integer divide by zero")
			}
			if _, cy := isConstTerm(y); !cy && ex.pure == 0 {
				ex.declareFun("nl.quo", []string{sInt, sInt}, sInt)
				ex.declareFun("nl.rem", []string{sInt, sInt}, sInt)
				ex.used["uninterpreted: integer division by a non-constant in executed code"] = true
				if op == token.QUO {
					qv := ex.name("nlquo", app("nl.quo", x, y), sInt)
					// |x/y| <= |x| and the sign rule
					ex.assume(and(imp(and(app(">=", x, "0"), app(">", y, "0")), and(app("<=", "0", qv), app("<=", qv, x))), imp(eq(x, "0"), eq(qv, "0"))))
					return scalar(resT, wrapInt(resT, qv))
				}
				rv := ex.name("nlrem", app("nl.rem", x, y), sInt)
				ex.assume(imp(and(app(">=", x, "0"), app(">", y, "0")), and(app("<=", "0", rv), app("<", rv, y))))
				return scalar(resT, rv)
			}
			var q string
			if !signed {
				q = app("div", x, y)
			} else {
				// truncated division
				q = ite(app(">=", x, "0"),
					ite(app(">", y, "0"), app("div", x, y), app("-", app("div", x, app("-", y)))),
					ite(app(">", y, "0"), app("-", app("div", app("-", x), y)), app("div", app("-", x), app("-", y))))
			}
			if op == token.QUO {
				return scalar(resT, wrapInt(resT, q))
			}
			return scalar(resT, app("-", x, app("*", y, q)))
		case token.LSS:
			return boolVal(app("<", x, y))
		case token.LEQ:
			return boolVal(app("<=", x, y))
		case token.GTR:
			return boolVal(app(">", x, y))
		case token.GEQ:
			return boolVal(app(">=", x, y))
		case token.SHL:
			if c, ok := isConstTerm(y); ok && c.IsUint64() && c.Uint64() < 128 {
				return scalar(resT, wrapInt(resT, app("*", x, pow2(uint(c.Uint64())))))
			}
			ex.declareFun("bv.shl", []string{sInt, sInt}, sInt)
			ex.used["uninterpreted: non-constant shift"] = true
			return scalar(resT, wrapInt(resT, app("bv.shl", x, y)))
		case token.SHR:
			if c, ok := isConstTerm(y); ok && c.IsUint64() && c.Uint64() < 128 {
				return scalar(resT, app("div", x, pow2(uint(c.Uint64()))))
			}
			ex.declareFun("bv.shr", []string{sInt, sInt}, sInt)
			ex.used["uninterpreted: non-constant shift"] = true
			return scalar(resT, wrapInt(resT, app("bv.shr", x, y)))
		case token.AND:
			if t, ok := andConst(x, y); ok {
				return scalar(resT, t)
			}
			if t, ok := andConst(y, x); ok {
				return scalar(resT, t)
			}
			ex.declareFun("bv.and", []string{sInt, sInt}, sInt)
			ex.used["uninterpreted: bitwise and of two non-constants"] = true
			return scalar(resT, wrapInt(resT, app("bv.and", x, y)))
		case token.OR:
			ex.declareFun("bv.or", []string{sInt, sInt}, sInt)
			ex.used["uninterpreted: bitwise or"] = true
			return scalar(resT, wrapInt(resT, app("bv.or", x, y)))
		case token.XOR:
			ex.declareFun("bv.xor", []string{sInt, sInt}, sInt)
			ex.used["uninterpreted: bitwise xor"] = true
			return scalar(resT, wrapInt(resT, app("bv.xor", x, y)))
		case token.AND_NOT:
			ex.declareFun("bv.andnot", []string{sInt, sInt}, sInt)
			ex.used["uninterpreted: bitwise and-not"] = true
			return scalar(resT, wrapInt(resT, app("bv.andnot", x, y)))
		}
	}
	panic(unsupported(fmt.Sprintf("binop %s on %s", op, opT)))
}

// andConst rewrites x & c for constant masks made of one contiguous run of ones.
func andConst(x, c string) (string, bool) {
	m, ok := isConstTerm(c)
	if !ok || m.Sign() < 0 {
		return "", false
	}
	if m.Sign() == 0 {
		return "0", true
	}
	// find lowest set bit and check contiguity
	lo := uint(0)
	for m.Bit(int(lo)) == 0 {
		lo++
	}
	hi := lo
	for m.Bit(int(hi)) == 1 {
		hi++
	}
	rest := new(big.Int).Rsh(m, hi)
	if rest.Sign() != 0 {
		return "", false
	}
	t := app("mod", app("div", x, pow2(lo)), pow2(hi-lo))
	if lo > 0 {
		t = app("*", pow2(lo), t)
	} else {
		t = app("mod", x, pow2(hi))
	}
	return t, true
}

// valEq is Go's == on two values of the same type.
func (ex *Exec) valEq(a, b Val) string {
	// nil comparisons on slices compare the array pointer only
	if _, ok := a.T.Underlying().(*types.Slice); ok {
		return eq(a.L[0], b.L[0])
	}
	if _, ok := b.T.Underlying().(*types.Slice); ok {
		return eq(a.L[0], b.L[0])
	}
	if (a.P != nil && a.P.Kind == pkElem) || (b.P != nil && b.P.Kind == pkElem) {
		panic(unsupported("comparison of element pointers"))
	}
	if len(a.L) != len(b.L) {
		// interface vs concrete nil etc.
		if len(a.L) == 2 && isNilConst(b) {
			return eq(a.L[0], "0")
		}
		if len(b.L) == 2 && isNilConst(a) {
			return eq(b.L[0], "0")
		}
		panic(unsupported(fmt.Sprintf("== on different shapes %s %s", a.T, b.T)))
	}
	if _, ok := a.T.Underlying().(*types.Interface); ok {
		// interface equality: same dynamic type and same payload reference; nil iff tag 0
		return and(eq(a.L[0], b.L[0]), or(eq(a.L[0], "0"), eq(a.L[1], b.L[1])))
	}
	var cs []string
	for i := range a.L {
		cs = append(cs, eq(a.L[i], b.L[i]))
	}
	return and(cs...)
}

func (fr *frame) unop(x *ssa.UnOp, st *State, reach *string) {
	ex := fr.ex
	v := fr.val(x.X)
	switch x.Op {
	case token.MUL:
		pi := ptrInfoOf(v)
		if pi.clean() && pi.Kind != pkArr {
			fr.safety(x, *reach, not(eq(v.L[0], "0")), "nil dereference: *"+x.X.Name())
		}
		if pi.Kind == pkGlobal {
			if gv, ok := ex.globalConst(pi, st); ok {
				fr.set(x, gv)
				return
			}
		}
		lv := ex.load(st, v)
		ex.assume(imp(*reach, rangeFacts(leaves(lv.T), lv.L, st.Top)))
		if f, ok := ex.cellFuncs[cellKey(v)]; ok {
			lv.F = f
		}
		fr.set(x, lv)
	case token.NOT:
		fr.set(x, boolVal(not(v.L[0])))
	case token.SUB:
		if bt, ok := x.Type().Underlying().(*types.Basic); ok && bt.Info()&types.IsFloat != 0 {
			fr.set(x, scalar(x.Type(), app("-", v.L[0])))
		} else {
			fr.set(x, scalar(x.Type(), wrapInt(x.Type(), app("-", v.L[0]))))
		}
	case token.XOR:
		bits, signed, ok := intBits(x.Type())
		if ok && !signed {
			fr.set(x, scalar(x.Type(), app("-", app("-", pow2(bits), "1"), v.L[0])))
		} else {
			fr.set(x, scalar(x.Type(), app("-", app("-", v.L[0]), "1")))
		}
	case token.ARROW:
		fr.set(x, ex.chanRecv(fr, x, v, st, reach))
	default:
		panic(unsupported("unop " + x.Op.String()))
	}
}

func (fr *frame) convert(from, to types.Type, v Val, st *State) Val {
	ex := fr.ex
	return ex.convertVal(from, to, v, st)
}

func (ex *Exec) convertVal(from, to types.Type, v Val, st *State) Val {
	fb, _ := from.Underlying().(*types.Basic)
	tb, _ := to.Underlying().(*types.Basic)
	isInt := func(b *types.Basic) bool { return b != nil && b.Info()&types.IsInteger != 0 }
	isFloat := func(b *types.Basic) bool { return b != nil && b.Info()&types.IsFloat != 0 }
	isStr := func(b *types.Basic) bool { return b != nil && b.Info()&types.IsString != 0 }
	switch {
	case isInt(fb) && isInt(tb):
		return scalar(to, wrapInt(to, v.L[0]))
	case isInt(fb) && isFloat(tb):
		return scalar(to, app("to_real", v.L[0]))
	case isFloat(fb) && isFloat(tb):
		return scalar(to, v.L[0])
	case isFloat(fb) && isInt(tb):
		x := v.L[0]
		return scalar(to, wrapInt(to, ite(app(">=", x, "0.0"), app("to_int", x), app("-", app("to_int", app("-", x))))))
	case isStr(tb):
		if sl, ok := from.Underlying().(*types.Slice); ok {
			if eb, ok := sl.Elem().Underlying().(*types.Basic); ok && eb.Kind() == types.Uint8 {
				return scalar(to, ex.bytesToStr(st, v))
			}
		}
		if isStr(fb) {
			return scalar(to, v.L[0])
		}
		if isInt(fb) {
			ex.declareFun("str.fromrune", []string{sInt}, sStr)
			return scalar(to, app("str.fromrune", v.L[0]))
		}
	case isStr(fb):
		if sl, ok := to.Underlying().(*types.Slice); ok {
			if eb, ok := sl.Elem().Underlying().(*types.Basic); ok && eb.Kind() == types.Uint8 {
				return ex.strToBytes(st, v, to)
			}
		}
	}
	if len(leaves(from)) == len(leaves(to)) {
		// pointer/unsafe conversions are not supported; same-shape conversions are value-preserving
		if _, ok := to.Underlying().(*types.Basic); ok && to.Underlying().(*types.Basic).Kind() == types.UnsafePointer {
			// the pointer escapes the type system: what it denotes from here on is opaque (a fresh, otherwise unknown
			// reference). Sound as long as verified code only hands it to external calls, which is checked below.
			ex.used["A-UNSAFE: a pointer converted to unsafe.Pointer is an opaque reference from then on (only passed to system calls)"] = true
			return Val{T: to, L: []string{ex.alloc(st)}}
		}
		if fbb, ok := from.Underlying().(*types.Basic); ok && fbb.Kind() == types.UnsafePointer {
			if pt, isPtr := to.Underlying().(*types.Pointer); isPtr {
				// back from unsafe.Pointer: a fresh object of the target type with unconstrained contents
				ex.used["A-UNSAFE: a pointer obtained from unsafe.Pointer denotes a fresh object with unconstrained contents"] = true
				obj := ex.allocObject(st, pt.Elem())
				fv := ex.freshVal(pt.Elem(), st, "unsafeobj")
				if _, isArr := pt.Elem().Underlying().(*types.Array); !isArr {
					ex.store(st, obj, fv)
				}
				obj.T = to
				return obj
			}
		}
		return Val{T: to, L: v.L, P: v.P, F: v.F}
	}
	panic(unsupported(fmt.Sprintf("convert %s -> %s", from, to)))
}

// bytesToStr models string(b) as an uninterpreted function of the byte row, offset and length.
func (ex *Exec) bytesToStr(st *State, v Val) string {
	ex.declareFun("str.frombytes", []string{arrSort(sInt, sInt), sInt, sInt}, sStr)
	key := "E|" + typeKey(types.Typ[types.Byte]) + "|"
	h := ex.heapGet(st, key, heapKeySort("E", sInt, ""))
	return ite(eq(v.L[2], "0"), "str_empty", app("str.frombytes", sel(h, v.L[0]), v.L[1], v.L[2]))
}

func (ex *Exec) strToBytes(st *State, v Val, to types.Type) Val {
	if lit, ok := ex.strLits[v.L[0]]; ok || v.L[0] == "str_empty" {
		// a string literal: its bytes are known
		r := ex.alloc(st)
		key := "E|" + typeKey(types.Typ[types.Byte]) + "|"
		srt := heapKeySort("E", sInt, "")
		h := ex.heapGet(st, key, srt)
		row := "((as const (Array Int Int)) 0)"
		for i := 0; i < len(lit); i++ {
			row = sto(row, num(int64(i)), num(int64(lit[i])))
		}
		ex.heapSet(st, key, srt, sto(h, r, row))
		n := num(int64(len(lit)))
		return sliceVal(to, r, "0", n, n)
	}
	ex.declareFun("str.len", []string{sStr}, sInt)
	ex.declareFun("str.bytes", []string{sStr}, arrSort(sInt, sInt))
	r := ex.alloc(st)
	key := "E|" + typeKey(types.Typ[types.Byte]) + "|"
	srt := heapKeySort("E", sInt, "")
	h := ex.heapGet(st, key, srt)
	ex.heapSet(st, key, srt, sto(h, r, app("str.bytes", v.L[0])))
	ln := app("str.len", v.L[0])
	ex.assume(app("<=", "0", ln))
	return sliceVal(to, r, "0", ln, ln)
}

func (fr *frame) indexAddr(x *ssa.IndexAddr, st *State, reach string) {
	xv := fr.val(x.X)
	iv := fr.val(x.Index).L[0]
	switch t := x.X.Type().Underlying().(type) {
	case *types.Slice:
		fr.safety(x, reach, and(app("<=", "0", iv), app("<", iv, xv.L[2])), "index out of range: "+x.X.Name()+"["+x.Index.Name()+"]")
		fr.set(x, elemPtr(t.Elem(), xv.L[0], at(xv.L[1], iv)))
	case *types.Pointer:
		arr := t.Elem().Underlying().(*types.Array)
		fr.safety(x, reach, and(app("<=", "0", iv), app("<", iv, num(arr.Len()))), "array index out of range")
		pi := ptrInfoOf(xv)
		if pi.Kind != pkArr {
			panic(unsupported("IndexAddr through interior array pointer"))
		}
		fr.safety(x, reach, not(eq(xv.L[0], "0")), "nil array pointer")
		fr.set(x, elemPtr(arr.Elem(), xv.L[0], iv))
	default:
		panic(unsupported("IndexAddr on " + x.X.Type().String()))
	}
}

func (fr *frame) sliceOp(x *ssa.Slice, st *State, reach string) {
	ex := fr.ex
	xv := fr.val(x.X)
	var lo, hi, mx string
	if x.Low != nil {
		lo = fr.val(x.Low).L[0]
	} else {
		lo = "0"
	}
	switch t := x.X.Type().Underlying().(type) {
	case *types.Slice:
		if x.High != nil {
			hi = fr.val(x.High).L[0]
		} else {
			hi = xv.L[2]
		}
		cp := xv.L[3]
		if x.Max != nil {
			mx = fr.val(x.Max).L[0]
			fr.safety(x, reach, and(app("<=", "0", lo), app("<=", lo, hi), app("<=", hi, mx), app("<=", mx, cp)), "slice bounds out of range")
			cp = mx
		} else {
			fr.safety(x, reach, and(app("<=", "0", lo), app("<=", lo, hi), app("<=", hi, cp)), "slice bounds out of range")
		}
		fr.set(x, sliceVal(x.Type(), xv.L[0], at(xv.L[1], lo), sub(hi, lo), sub(cp, lo)))
	case *types.Basic: // string
		ex.declareFun("str.len", []string{sStr}, sInt)
		ex.declareFun("str.sub", []string{sStr, sInt, sInt}, sStr)
		ln := app("str.len", xv.L[0])
		if x.High != nil {
			hi = fr.val(x.High).L[0]
		} else {
			hi = ln
		}
		fr.safety(x, reach, and(app("<=", "0", lo), app("<=", lo, hi), app("<=", hi, ln)), "string slice bounds out of range")
		fr.set(x, scalar(x.Type(), app("str.sub", xv.L[0], lo, hi)))
	case *types.Pointer:
		arr := t.Elem().Underlying().(*types.Array)
		n := num(arr.Len())
		if x.High != nil {
			hi = fr.val(x.High).L[0]
		} else {
			hi = n
		}
		pi := ptrInfoOf(xv)
		if pi.Kind != pkArr {
			panic(unsupported("slicing an interior array"))
		}
		fr.safety(x, reach, and(app("<=", "0", lo), app("<=", lo, hi), app("<=", hi, n)), "slice bounds out of range")
		fr.set(x, sliceVal(x.Type(), xv.L[0], lo, sub(hi, lo), sub(n, lo)))
	default:
		panic(unsupported("Slice on " + x.X.Type().String()))
	}
}

func (fr *frame) lookup(x *ssa.Lookup, st *State, reach string) {
	ex := fr.ex
	xv := fr.val(x.X)
	switch x.X.Type().Underlying().(type) {
	case *types.Map:
		k := fr.val(x.Index)
		kt := ex.mapKeyTerm(x.X.Type().Underlying().(*types.Map), k)
		v := ex.mapGet(st, xv, kt)
		ex.assume(imp(reach, rangeFacts(leaves(v.T), v.L, st.Top)))
		if x.CommaOk {
			has := ex.mapHas(st, xv, kt)
			fr.set(x, Val{L: append(append([]string{}, v.L...), has)})
		} else {
			fr.set(x, v)
		}
	default:
		ex.declareFun("str.at", []string{sStr, sInt}, sInt)
		fr.set(x, scalar(x.Type(), app("str.at", xv.L[0], fr.val(x.Index).L[0])))
	}
}

// makeInterface boxes a concrete value into an interface value (tag, ref).
func (ex *Exec) makeInterface(st *State, v Val, t types.Type) Val {
	tag := num(int64(ex.w.typeID(t)))
	if _, ok := t.Underlying().(*types.Interface); ok {
		return Val{L: v.L}
	}
	if _, ok := t.Underlying().(*types.Pointer); ok {
		if v.P != nil && !v.P.clean() {
			// an interior pointer escapes into an interface (e.g. a gopacket DecodingLayer registration): it is replaced by a
			// reference to a fresh object; accesses through the interface are over-approximated on reads and untracked on writes
			ex.used["abstracted: interior pointer converted to interface ("+shortType(t)+"): reads through it over-approximated, writes untracked"] = true
			v = Val{T: v.T, L: []string{ex.alloc(st)}}
		}
		out := Val{L: []string{tag, v.L[0]}}
		ex.noteErrorCreated(st, out, t, v.L[0])
		return out
	}
	ls := leaves(t)
	if len(ls) == 1 && ls[0].Sort == sInt {
		// scalar integers (and refs) are stored unboxed in the ref slot
		out := Val{L: []string{tag, v.L[0]}}
		ex.noteErrorCreated(st, out, t, v.L[0])
		return out
	}
	r := ex.alloc(st)
	for j, l := range ls {
		key := "B|" + typeKey(t) + "|" + l.Name
		srt := heapKeySort("B", l.Sort, "")
		h := ex.heapGet(st, key, srt)
		ex.heapSet(st, key, srt, sto(h, r, v.L[j]))
	}
	out := Val{L: []string{tag, r}}
	ex.noteErrorCreated(st, out, t, r)
	return out
}

func (ex *Exec) unbox(st *State, iface Val, t types.Type) Val {
	if _, ok := t.Underlying().(*types.Pointer); ok {
		return Val{T: t, L: []string{iface.L[1]}}
	}
	ls := leaves(t)
	if len(ls) == 1 && ls[0].Sort == sInt {
		return Val{T: t, L: []string{iface.L[1]}}
	}
	v := Val{T: t, L: make([]string, len(ls))}
	for j, l := range ls {
		key := "B|" + typeKey(t) + "|" + l.Name
		h := ex.heapGet(st, key, heapKeySort("B", l.Sort, ""))
		v.L[j] = sel(h, iface.L[1])
	}
	return v
}

func (fr *frame) typeAssert(x *ssa.TypeAssert, st *State, reach string) {
	ex := fr.ex
	iv := fr.val(x.X)
	at := x.AssertedType
	var ok string
	var val Val
	if _, isIface := at.Underlying().(*types.Interface); isIface {
		// interface-to-interface assertion: succeeds for non-nil values whose dynamic type implements it (abstracted)
		impl := ex.freshConst("implements", sBool)
		ex.used["abstracted: interface-to-interface type assertion"] = true
		ok = and(not(eq(iv.L[0], "0")), impl)
		val = Val{T: at, L: []string{ite(ok, iv.L[0], "0"), ite(ok, iv.L[1], "0")}}
	} else {
		ok = eq(iv.L[0], num(int64(ex.w.typeID(at))))
		val = ex.unbox(st, iv, at)
		z := zeroVal(at)
		for i := range val.L {
			val.L[i] = ite(ok, val.L[i], z.L[i])
		}
	}
	if x.CommaOk {
		fr.set(x, Val{L: append(append([]string{}, val.L...), ok)})
		return
	}
	fr.safety(x, reach, ok, "type assertion failed: "+x.String())
	fr.set(x, val)
}

func (fr *frame) runDefers(st *State, reach *string) {
	ex := fr.ex
	for i := len(fr.defers) - 1; i >= 0; i-- {
		d := fr.defers[i]
		if d.reach == "false" {
			continue
		}
		// defers registered inside a loop body only see the current iteration
		cond := d.reach
		st2 := st.clone()
		r2 := ex.name("dr", and(*reach, cond), sBool)
		fr.call(&d.instr.Call, st2, &r2, d.instr)
		m := ex.mergeStates([]string{cond}, []*State{st2, st})
		*st = *m
	}
}
