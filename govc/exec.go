package main

import (
	"fmt"
	"go/constant"
	"go/token"
	"go/types"
	"math/big"
	"strings"

	"golang.org/x/tools/go/ssa"
)

const maxInlineDepth = 12

type deferred struct {
	instr *ssa.Defer
	reach string
}

type frame struct {
	ex      *Exec
	fn      *ssa.Function
	vals    map[ssa.Value]Val
	depth   int
	top     bool
	c       *Contract
	entry   *State
	args    []Val
	bind    []Val
	defers  []deferred
	site    string // label prefix for obligations raised in inlined code
	outer   []string
	loops   *loopInfo
	reach   map[*ssa.BasicBlock]string
	outSt   map[*ssa.BasicBlock]*State
	edge    map[[2]int]string
	curBlk  *ssa.BasicBlock
	rets    []retPoint
	npanic  map[ssa.Instruction]string
	joinedRecs []spawnRec
	contrib map[string]string
	spawnArgs []Val // arguments of the go statement being processed
	monInit bool // monitor invariants have been established (checked before the first spawn)
	ghostAt map[string]Val
	iterSt  map[int]*State
	curIter *State
	lockSnap map[string]*State
	spawned []spawnRec
	decAt   map[int]string // loop ordinal → value of the variant at the head of the current iteration
}

type retPoint struct {
	reach string
	vals  []Val
	st    *State
}

type loopInfo struct {
	headers []*ssa.BasicBlock                   // in block-index order
	ordinal map[*ssa.BasicBlock]int             // header → 1-based ordinal
	body    map[*ssa.BasicBlock]map[*ssa.BasicBlock]bool // header → blocks in loop
	back    map[[2]int]bool                     // back edges
}

func computeLoops(fn *ssa.Function) *loopInfo {
	li := &loopInfo{ordinal: map[*ssa.BasicBlock]int{}, body: map[*ssa.BasicBlock]map[*ssa.BasicBlock]bool{}, back: map[[2]int]bool{}}
	for _, b := range fn.Blocks {
		for _, s := range b.Succs {
			if s.Dominates(b) {
				li.back[[2]int{b.Index, s.Index}] = true
				body := li.body[s]
				if body == nil {
					body = map[*ssa.BasicBlock]bool{s: true}
					li.body[s] = body
				}
				// natural loop: nodes reaching b without passing through s
				var stack []*ssa.BasicBlock
				if !body[b] {
					body[b] = true
					stack = append(stack, b)
				}
				for len(stack) > 0 {
					n := stack[len(stack)-1]
					stack = stack[:len(stack)-1]
					for _, p := range n.Preds {
						if !body[p] {
							body[p] = true
							stack = append(stack, p)
						}
					}
				}
			}
		}
	}
	for _, b := range fn.Blocks {
		if li.body[b] != nil {
			li.headers = append(li.headers, b)
			li.ordinal[b] = len(li.headers)
		}
	}
	return li
}

func (li *loopInfo) loopsOf(b *ssa.BasicBlock) []*ssa.BasicBlock {
	var out []*ssa.BasicBlock
	for _, h := range li.headers {
		if li.body[h][b] {
			out = append(out, h)
		}
	}
	return out
}

func loopID(fn *ssa.Function, ord int) string { return fmt.Sprintf("%s#loop%d", fn.String(), ord) }

// topoOrder returns blocks in reverse post-order ignoring back edges.
func topoOrder(fn *ssa.Function, li *loopInfo) []*ssa.BasicBlock {
	seen := map[*ssa.BasicBlock]bool{}
	var post []*ssa.BasicBlock
	var dfs func(b *ssa.BasicBlock)
	dfs = func(b *ssa.BasicBlock) {
		seen[b] = true
		for i := len(b.Succs) - 1; i >= 0; i-- {
			s := b.Succs[i]
			if li.back[[2]int{b.Index, s.Index}] || seen[s] {
				continue
			}
			dfs(s)
		}
		post = append(post, b)
	}
	dfs(fn.Blocks[0])
	for i, j := 0, len(post)-1; i < j; i, j = i+1, j-1 {
		post[i], post[j] = post[j], post[i]
	}
	return post
}

func (ex *Exec) posOf(p token.Pos) string {
	if !p.IsValid() {
		return ""
	}
	pp := ex.w.fset.Position(p)
	return fmt.Sprintf("%s:%d", strings.TrimPrefix(pp.Filename, repoDir()+"/"), pp.Line)
}

// execFunc symbolically executes fn and returns its merged results.
func (ex *Exec) execFunc(fn *ssa.Function, args []Val, bind []Val, st *State, reach string, depth int, top bool, site string, outer []string) ([]Val, *State, string) {
	if len(fn.Blocks) == 0 {
		panic(unsupported("function without body: " + fn.String()))
	}
	if depth > maxInlineDepth {
		panic(unsupported("inline depth exceeded at " + fn.String()))
	}
	fr := &frame{ex: ex, fn: fn, vals: map[ssa.Value]Val{}, depth: depth, top: top, args: args, bind: bind, site: site, outer: outer,
		reach: map[*ssa.BasicBlock]string{}, outSt: map[*ssa.BasicBlock]*State{}, edge: map[[2]int]string{}}
	fr.c = ex.w.contracts[fn]
	fr.entry = st.clone()
	if top {
		ex.topFrame = fr
	}
	fr.loops = computeLoops(fn)
	fr.npanic = panicOrdinals(fn)
	for i, p := range fn.Params {
		fr.vals[p] = args[i]
	}
	for i, fv := range fn.FreeVars {
		fr.vals[fv] = bind[i]
	}
	order := topoOrder(fn, fr.loops)
	for _, b := range order {
		fr.execBlock(b, st, reach)
	}
	// merge return points
	if len(fr.rets) == 0 {
		return nil, st, "false"
	}
	var conds []string
	var sts []*State
	for _, r := range fr.rets {
		conds = append(conds, r.reach)
		sts = append(sts, r.st)
	}
	out := ex.mergeStates(conds, sts)
	nres := len(fr.rets[0].vals)
	res := make([]Val, nres)
	for i := 0; i < nres; i++ {
		v := fr.rets[len(fr.rets)-1].vals[i]
		for j := len(fr.rets) - 2; j >= 0; j-- {
			v = ex.iteVal(fr.rets[j].reach, fr.rets[j].vals[i], v)
		}
		res[i] = ex.nameVal("ret", v)
	}
	rr := ex.name("rr", or(conds...), sBool)
	if top {
		// postconditions and the frame are checked once, on the merged exit state
		fr.checkPost(nil, res, out, rr)
		// a `before CALLEE assert` that matched no call site would be a silent hole: it fails instead
		if fr.c != nil && !ex.discover {
			var keys []string
			for k := range fr.c.Before {
				keys = append(keys, k)
			}
			sortStrings(keys)
			for _, k := range keys {
				if !ex.beforeHit[k] {
					for _, cl := range fr.c.Before[k] {
						ex.oblige("before."+k+"."+cl.Label+".nosite", "assert", cl.Props, "false", cl.Pos, "no call of "+k+" found for: "+cl.Text)
					}
				}
			}
		}
	}
	return res, out, rr
}

func (ex *Exec) nameVal(prefix string, v Val) Val {
	if ex.pure > 0 {
		return v
	}
	ls := leaves(v.T)
	n := Val{T: v.T, L: make([]string, len(v.L)), P: v.P, F: v.F}
	for i := range v.L {
		srt := sInt
		if i < len(ls) {
			srt = ls[i].Sort
		}
		n.L[i] = ex.name(prefix, v.L[i], srt)
	}
	if v.P != nil && v.P.Idx != "" {
		p := *v.P
		p.Idx = ex.name(prefix, p.Idx, sInt)
		n.P = &p
	}
	return n
}

func (ex *Exec) iteVal(c string, a, b Val) Val {
	if c == "true" {
		return a
	}
	if c == "false" {
		return b
	}
	if len(a.L) != len(b.L) {
		panic(unsupported(fmt.Sprintf("merge of values with different shapes: %s / %s", a.T, b.T)))
	}
	out := Val{T: a.T, L: make([]string, len(a.L))}
	for i := range a.L {
		out.L[i] = ite(c, a.L[i], b.L[i])
	}
	// pointer shapes
	if a.P != nil || b.P != nil {
		pa, pb := a.P, b.P
		if pa == nil && isNilConst(a) {
			pa = pb
		}
		if pb == nil && isNilConst(b) {
			pb = pa
		}
		if pa == nil || pb == nil {
			if pa == nil {
				pa = ptrInfoOf(a)
			}
			if pb == nil {
				pb = ptrInfoOf(b)
			}
		}
		if pa.Kind != pb.Kind || typeKey(pa.Root) != typeKey(pb.Root) || pa.Glob != pb.Glob || fmt.Sprint(pa.Path) != fmt.Sprint(pb.Path) {
			panic(unsupported("merge of pointers with different static shapes"))
		}
		p := *pa
		p.Idx = ite(c, pa.Idx, pb.Idx)
		out.P = &p
	}
	if a.F != nil || b.F != nil {
		if a.F == nil || b.F == nil || a.F.Fn != b.F.Fn || a.F.Abstract != b.F.Abstract {
			if _, isFunc := a.T.Underlying().(*types.Signature); !isFunc {
				return out // not a function value: stale static info
			}
			panic(unsupported("merge of different function values"))
		}
		f := *a.F
		f.Bind = make([]Val, len(a.F.Bind))
		for i := range a.F.Bind {
			f.Bind[i] = ex.iteVal(c, a.F.Bind[i], b.F.Bind[i])
		}
		out.F = &f
	}
	return out
}

func isNilConst(v Val) bool { return len(v.L) == 1 && v.L[0] == "0" }

// val evaluates an SSA value in the current frame.
func (fr *frame) val(v ssa.Value) Val {
	if x, ok := fr.vals[v]; ok {
		return x
	}
	switch c := v.(type) {
	case *ssa.Const:
		return fr.ex.constVal(c)
	case *ssa.Global:
		return Val{T: c.Type(), L: []string{"1"}, P: &PtrInfo{Kind: pkGlobal, Root: c.Type().Underlying().(*types.Pointer).Elem(), Glob: c}}
	case *ssa.Function:
		return Val{T: c.Type(), L: []string{"1"}, F: &FuncInfo{Fn: c}}
	case *ssa.Builtin:
		return Val{T: c.Type(), L: []string{"1"}}
	}
	panic(unsupported(fmt.Sprintf("value %s (%T) not computed in %s", v.Name(), v, fr.fn)))
}

func (ex *Exec) constVal(c *ssa.Const) Val {
	t := c.Type()
	if c.Value == nil {
		return zeroVal(t)
	}
	switch c.Value.Kind() {
	case constant.Bool:
		if constant.BoolVal(c.Value) {
			return scalar(t, "true")
		}
		return scalar(t, "false")
	case constant.String:
		return scalar(t, ex.strConst(constant.StringVal(c.Value)))
	case constant.Int:
		b, ok := new(big.Int).SetString(c.Value.ExactString(), 10)
		if !ok {
			panic("bad int const")
		}
		if bt, isb := t.Underlying().(*types.Basic); isb && bt.Info()&types.IsFloat != 0 {
			return scalar(t, realLit(new(big.Rat).SetInt(b)))
		}
		return scalar(t, bigNum(b))
	case constant.Float:
		r, ok := new(big.Rat).SetString(c.Value.ExactString())
		if !ok {
			f, _ := constant.Float64Val(c.Value)
			r = new(big.Rat).SetFloat64(f)
		}
		if bt, isb := t.Underlying().(*types.Basic); isb && bt.Info()&types.IsInteger != 0 {
			return scalar(t, bigNum(new(big.Int).Quo(r.Num(), r.Denom())))
		}
		return scalar(t, realLit(r))
	}
	panic(unsupported("constant kind " + c.Value.Kind().String()))
}

func (fr *frame) label(l string) string {
	if fr.site != "" {
		return fr.site + l
	}
	return l
}

func (fr *frame) setLoopStack(b *ssa.BasicBlock) {
	st := append([]string{}, fr.outer...)
	for _, h := range fr.loops.loopsOf(b) {
		st = append(st, loopID(fr.fn, fr.loops.ordinal[h]))
	}
	fr.ex.loopStack = st
}

func (fr *frame) execBlock(b *ssa.BasicBlock, st0 *State, reach0 string) {
	ex := fr.ex
	fr.curBlk = b
	var st *State
	var reach string
	var fconds []string
	var fpreds []*ssa.BasicBlock
	if b.Index == 0 {
		st, reach = st0, reach0
	} else {
		var sts []*State
		for _, p := range b.Preds {
			if fr.loops.back[[2]int{p.Index, b.Index}] {
				continue
			}
			c, ok := fr.edge[[2]int{p.Index, b.Index}]
			if !ok {
				continue // predecessor unreachable / not processed
			}
			fconds = append(fconds, c)
			fpreds = append(fpreds, p)
			sts = append(sts, fr.outSt[p])
		}
		if len(sts) == 0 {
			return
		}
		st = ex.mergeStates(fconds, sts)
		reach = ex.name("reach", or(fconds...), sBool)
	}
	fr.setLoopStack(b)
	ex.curReach = reach
	isHeader := fr.loops.body[b] != nil
	// phis
	phiEntry := map[*ssa.Phi]Val{}
	for _, ins := range b.Instrs {
		phi, ok := ins.(*ssa.Phi)
		if !ok {
			break
		}
		var v Val
		first := true
		for i := len(fpreds) - 1; i >= 0; i-- {
			p := fpreds[i]
			idx := predIndex(b, p)
			ev := fr.val(phi.Edges[idx])
			if first {
				v = ev
				first = false
			} else {
				v = ex.iteVal(fconds[i], ev, v)
			}
		}
		v.T = phi.Type()
		phiEntry[phi] = v
		if !isHeader {
			fr.vals[phi] = ex.nameVal("phi", v)
		}
	}
	if isHeader && !fr.monInit && fr.c != nil && len(fr.c.Monitors) > 0 && loopSpawns(fr.loops.body[b]) {
		// the first goroutines are started inside this loop: the monitor invariants must hold before it
		fr.curBlk = b
		fr.checkMonitorInit(st, reach)
	}
	if isHeader {
		ord := fr.loops.ordinal[b]
		lid := loopID(fr.fn, ord)
		// 1. invariant holds on entry (with entry phi values)
		for phi, v := range phiEntry {
			fr.vals[phi] = v
		}
		invs := fr.loopInvariants(ord)
		for _, inv := range invs {
			g := fr.evalClause(inv, b, st, nil)
			ex.oblige(fr.label(fmt.Sprintf("loop%d.%s.entry", ord, inv.Label)), "invariant", inv.Props, imp(reach, g), inv.Pos, inv.Text)
		}
		// 2. havoc loop-carried state
		if !ex.discover {
			for _, ins := range b.Instrs {
				phi, ok := ins.(*ssa.Phi)
				if !ok {
					break
				}
				fr.vals[phi] = ex.havocLike(phiEntry[phi], st, "lv_"+phi.Comment)
			}
			if ex.loopAll[lid] {
				ex.havocAll(st, "loop "+lid)
			} else {
				mods := ex.loopMods[lid]
				ks := make([]string, 0, len(mods))
				for k := range mods {
					ks = append(ks, k)
				}
				sortStrings(ks)
				top := ex.freshConst("top", sInt)
				ex.assume(app("<=", st.Top, top))
				st.Top = top
				for _, k := range ks {
					if srt, ok := ex.keySort[k]; ok {
						st.H[k] = ex.freshConst("lh", srt)
						if wf := wfFact(k, st.H[k], top); wf != "" {
							ex.assume(wf)
						}
					}
				}
			}
			for _, ins := range b.Instrs {
				phi, ok := ins.(*ssa.Phi)
				if !ok {
					break
				}
				v := fr.vals[phi]
				ex.assume(rangeFacts(leaves(v.T), v.L, st.Top))
				if phi.Comment == "rangeindex" {
					// compiler-generated index of a range loop: starts at -1 and is only ever incremented
					ex.assume(app("<=", "(- 1)", v.L[0]))
				}
			}
			for _, inv := range invs {
				ex.assume(imp(reach, fr.evalClause(inv, b, st, nil)))
			}
			// implicit invariant: the unit's frame condition holds throughout the loop
			if tf := ex.topFrame; tf != nil && tf.c != nil && tf.c.HasMod && !ex.loopAll[lid] {
				for _, g := range tf.frameGoals(st, ex.loopMods[lid]) {
					ex.assume(imp(reach, g))
				}
			}
		}
	}
	if isHeader && !ex.discover && fr.c != nil && fr.c.Decreases[fr.loops.ordinal[b]] != nil {
		if fr.decAt == nil {
			fr.decAt = map[int]string{}
		}
		fr.decAt[fr.loops.ordinal[b]] = ex.name("variant", fr.evalClauseVal(fr.c.Decreases[fr.loops.ordinal[b]], b, st), sInt)
	}
	if isHeader && !ex.discover {
		if fr.iterSt == nil {
			fr.iterSt = map[int]*State{}
		}
		fr.iterSt[fr.loops.ordinal[b]] = st.clone()
	}
	fr.reach[b] = reach
	for _, ins := range b.Instrs {
		if _, ok := ins.(*ssa.Phi); ok {
			continue
		}
		ex.curReach = reach
		done := fr.execInstr(ins, st, &reach)
		if done {
			break
		}
	}
	fr.outSt[b] = st
}

func predIndex(b, p *ssa.BasicBlock) int {
	for i, x := range b.Preds {
		if x == p {
			return i
		}
	}
	panic("pred not found")
}

// havocLike builds a fresh symbolic value with the same static shape as v.
func (ex *Exec) havocLike(v Val, st *State, prefix string) Val {
	ls := leaves(v.T)
	n := Val{T: v.T, L: make([]string, len(v.L)), F: v.F}
	for i := range v.L {
		srt := sInt
		if i < len(ls) {
			srt = ls[i].Sort
		}
		n.L[i] = ex.freshConst(prefix, srt)
	}
	if v.P != nil {
		p := *v.P
		if p.Idx != "" {
			p.Idx = ex.freshConst(prefix+"_idx", sInt)
		}
		n.P = &p
	}
	return n
}

// freshVal creates a symbolic value of type t constrained by its type invariant.
func (ex *Exec) freshVal(t types.Type, st *State, prefix string) Val {
	ls := leaves(t)
	v := Val{T: t, L: make([]string, len(ls))}
	for i, l := range ls {
		v.L[i] = ex.freshConst(prefix, l.Sort)
	}
	top := ""
	if st != nil {
		top = st.Top
	}
	ex.assume(rangeFacts(ls, v.L, top))
	if sig, ok := t.Underlying().(*types.Signature); ok && sig != nil {
		v.F = &FuncInfo{Abstract: prefix}
	}
	return v
}

func (fr *frame) loopInvariants(ord int) []*Clause {
	if fr.c == nil {
		return nil
	}
	return fr.c.Loops[ord]
}

// goTo records the edge condition towards successor i of the current block, handling back edges.
func (fr *frame) goTo(b *ssa.BasicBlock, succ *ssa.BasicBlock, cond string, st *State) {
	ex := fr.ex
	if fr.loops.back[[2]int{b.Index, succ.Index}] {
		ord := fr.loops.ordinal[succ]
		if fr.top && !ex.discover {
			ex.backReach = append(ex.backReach, cond)
			ex.backPos = append(ex.backPos, fmt.Sprintf("loop%d back edge from block %d", ord, b.Index))
		}
		// evaluate invariant with the phi values flowing along this edge
		saved := map[*ssa.Phi]Val{}
		idx := predIndex(succ, b)
		for _, ins := range succ.Instrs {
			phi, ok := ins.(*ssa.Phi)
			if !ok {
				break
			}
			saved[phi] = fr.vals[phi]
		}
		newv := map[*ssa.Phi]Val{}
		for phi := range saved {
			nv := fr.val(phi.Edges[idx])
			nv.T = phi.Type()
			newv[phi] = nv
		}
		for phi, nv := range newv {
			fr.vals[phi] = nv
		}
		for _, inv := range fr.loopInvariants(ord) {
			g := fr.evalClause(inv, succ, st, nil)
			ex.oblige(fr.label(fmt.Sprintf("loop%d.%s.preserved", ord, inv.Label)), "invariant", inv.Props, imp(cond, g), inv.Pos, inv.Text)
		}
		if fr.c != nil && !ex.discover && fr.c.Decreases[ord] != nil && fr.decAt[ord] != "" {
			cl := fr.c.Decreases[ord]
			nv := fr.evalClauseVal(cl, succ, st)
			ex.oblige(fr.label(fmt.Sprintf("loop%d.%s.decreases", ord, cl.Label)), "invariant", cl.Props, imp(cond, and(app("<=", "0", fr.decAt[ord]), app("<", nv, fr.decAt[ord]))), cl.Pos, "variant (non-negative, strictly decreasing): "+cl.Text)
		}
		if fr.c != nil && !ex.discover {
			for _, cl := range fr.c.Steps[ord] {
				fr.curIter = fr.iterSt[ord]
				g := fr.evalClause(cl, succ, st, nil)
				fr.curIter = nil
				ex.oblige(fr.label(fmt.Sprintf("loop%d.%s.step", ord, cl.Label)), "invariant", cl.Props, imp(cond, g), cl.Pos, cl.Text)
			}
		}
		for phi, ov := range saved {
			fr.vals[phi] = ov
		}
		if tf := ex.topFrame; tf != nil && tf.c != nil && tf.c.HasMod && !ex.discover {
			lid := loopID(fr.fn, ord)
			if gs := tf.frameGoals(st, ex.loopMods[lid]); len(gs) > 0 && !ex.loopAll[lid] {
				ex.oblige(fr.label(fmt.Sprintf("loop%d.frame.preserved", ord)), "frame", nil, imp(cond, and(gs...)), tf.c.Pos, "implicit frame invariant")
			}
		}
		return
	}
	key := [2]int{b.Index, succ.Index}
	if old, ok := fr.edge[key]; ok {
		fr.edge[key] = or(old, cond)
	} else {
		fr.edge[key] = cond
	}
}

// panicOrdinals names every potentially panicking instruction: kind.ordinal within the function.
func panicOrdinals(fn *ssa.Function) map[ssa.Instruction]string {
	out := map[ssa.Instruction]string{}
	cnt := map[string]int{}
	for _, b := range fn.Blocks {
		for _, ins := range b.Instrs {
			k := ""
			switch x := ins.(type) {
			case *ssa.FieldAddr:
				k = "nil"
			case *ssa.IndexAddr, *ssa.Index:
				k = "index"
			case *ssa.Slice:
				k = "slice"
			case *ssa.UnOp:
				if x.Op == token.MUL {
					k = "nil"
				}
			case *ssa.Store:
				k = "nil"
			case *ssa.BinOp:
				if x.Op == token.QUO || x.Op == token.REM {
					k = "div"
				}
			case *ssa.TypeAssert:
				if !x.CommaOk {
					k = "typeassert"
				}
			case *ssa.MapUpdate:
				k = "nilmap"
			case *ssa.MakeSlice:
				k = "makeslice"
			case *ssa.Panic:
				k = "panic"
			case *ssa.Call:
				if x.Call.IsInvoke() {
					k = "nilcall"
				}
			}
			if k != "" {
				cnt[k]++
				out[ins] = fmt.Sprintf("nopanic.%s.%d", k, cnt[k])
			}
		}
	}
	return out
}

func (fr *frame) safety(ins ssa.Instruction, reach, cond, what string) {
	if cond == "true" {
		return
	}
	ex := fr.ex
	lbl := fr.npanic[ins]
	if lbl == "" {
		lbl = "nopanic.other"
	}
	props := fr.ex.unit.SafetyProps
	ex.oblige(fr.label(lbl), "nopanic", props, imp(reach, cond), ex.posOf(ins.Pos()), what)
}
