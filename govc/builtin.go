package main

import (
	"fmt"
	"go/token"
	"go/types"

	"golang.org/x/tools/go/ssa"
)

func (fr *frame) builtin(b *ssa.Builtin, cc *ssa.CallCommon, args []Val, st *State, reach string, instr ssa.Instruction) Val {
	ex := fr.ex
	switch b.Name() {
	case "len":
		v := args[0]
		switch t := cc.Args[0].Type().Underlying().(type) {
		case *types.Slice:
			return intVal(v.L[2])
		case *types.Basic:
			ex.declareFun("str.len", []string{sStr}, sInt)
			l := app("str.len", v.L[0])
			ex.assume(app("<=", "0", l))
			return intVal(l)
		case *types.Map:
			ex.declareFun("map.len", []string{sInt}, sInt)
			ex.used["uninterpreted: len(map)"] = true
			return intVal(app("map.len", v.L[0]))
		case *types.Pointer:
			return intVal(num(t.Elem().Underlying().(*types.Array).Len()))
		case *types.Array:
			return intVal(num(t.Len()))
		case *types.Chan:
			return ex.freshVal(types.Typ[types.Int], st, "chanlen")
		}
	case "cap":
		v := args[0]
		switch t := cc.Args[0].Type().Underlying().(type) {
		case *types.Slice:
			return intVal(v.L[3])
		case *types.Pointer:
			return intVal(num(t.Elem().Underlying().(*types.Array).Len()))
		}
	case "append":
		return fr.appendBuiltin(cc, args, st, reach)
	case "copy":
		return fr.copyBuiltin(cc, args, st, reach)
	case "delete":
		ex.mapDelete(st, args[0], ex.mapKeyTerm(args[0].T.Underlying().(*types.Map), args[1]))
		return Val{}
	case "close":
		return Val{}
	case "print", "println":
		return Val{}
	case "min", "max":
		v := args[0]
		for _, a := range args[1:] {
			op := "<="
			if b.Name() == "max" {
				op = ">="
			}
			v = scalar(v.T, ite(app(op, v.L[0], a.L[0]), v.L[0], a.L[0]))
		}
		return v
	case "recover":
		return zeroVal(types.NewInterfaceType(nil, nil))
	}
	panic(unsupported("builtin " + b.Name()))
}

// appendBuiltin models append(s, elems...) where the second argument is a slice.
// The result is a fresh backing array (over-approximating Go, which may reuse capacity:
// aliasing with the old array is not relied upon by any verified function).
func (fr *frame) appendBuiltin(cc *ssa.CallCommon, args []Val, st *State, reach string) Val {
	ex := fr.ex
	s := args[0]
	add := args[1]
	st0 := cc.Args[0].Type()
	et := sliceElemType(st0)
	if _, isStr := cc.Args[1].Type().Underlying().(*types.Basic); isStr {
		panic(unsupported("append of string"))
	}
	n := app("+", s.L[2], add.L[2])
	r := ex.alloc(st)
	// new row: i < len(s) ? old[s.off+i] : add[add.off + i - len(s)]
	for _, l := range leaves(et) {
		key := "E|" + typeKey(et) + "|" + l.Name
		srt := heapKeySort("E", l.Sort, "")
		h := ex.heapGet(st, key, srt)
		row := ex.freshConst("approw", arrSort(sInt, l.Sort))
		iv := "i!app"
		def := "(forall ((" + iv + " Int)) (! " + imp(and(app("<=", "0", iv), app("<", iv, n)),
			eq(sel(row, iv), ite(app("<", iv, s.L[2]), sel(h, s.L[0], at(s.L[1], iv)), sel(h, add.L[0], at(add.L[1], app("-", iv, s.L[2])))))) +
			" :pattern (" + sel(row, iv) + ")))"
		ex.assume(def)
		// the same fact oriented on the source array, so that a witness index of the old slice carries over
		kv := "k!app"
		ex.assume("(forall ((" + kv + " Int)) (! " + imp(and(app("<=", s.L[1], kv), app("<", kv, app("+", s.L[1], s.L[2]))),
			eq(sel(row, sub(kv, s.L[1])), sel(h, s.L[0], kv))) + " :pattern (" + sel(h, s.L[0], kv) + ")))")
		// common special cases are given directly to help the solver
		ex.assume(imp(eq(add.L[2], "1"), eq(sel(row, s.L[2]), sel(h, add.L[0], add.L[1]))))
		ex.heapSet(st, key, srt, sto(h, r, row))
	}
	cp := ex.freshConst("appcap", sInt)
	ex.assume(app("<=", n, cp))
	return sliceVal(st0, r, "0", n, cp)
}

func (fr *frame) copyBuiltin(cc *ssa.CallCommon, args []Val, st *State, reach string) Val {
	ex := fr.ex
	dst, src := args[0], args[1]
	if _, isStr := cc.Args[1].Type().Underlying().(*types.Basic); isStr {
		panic(unsupported("copy from string"))
	}
	et := sliceElemType(cc.Args[0].Type())
	n := ite(app("<=", dst.L[2], src.L[2]), dst.L[2], src.L[2])
	n = ex.name("ncopy", n, sInt)
	for _, l := range leaves(et) {
		key := "E|" + typeKey(et) + "|" + l.Name
		srt := heapKeySort("E", l.Sort, "")
		h := ex.heapGet(st, key, srt)
		row := ex.freshConst("cprow", arrSort(sInt, l.Sort))
		iv := "i!cp"
		old := sel(h, dst.L[0])
		def := "(forall ((" + iv + " Int)) (! " + eq(sel(row, iv),
			ite(and(app("<=", dst.L[1], iv), app("<", iv, app("+", dst.L[1], n))), sel(h, src.L[0], at(src.L[1], app("-", iv, dst.L[1]))), sel(old, iv))) +
			" :pattern (" + sel(row, iv) + ")))"
		ex.assume(def)
		ex.heapSet(st, key, srt, sto(h, dst.L[0], row))
	}
	return intVal(n)
}

// chanRecv models a receive: the value is unconstrained; receives are points where the ghost clock may advance.
func (ex *Exec) chanRecv(fr *frame, x *ssa.UnOp, ch Val, st *State, reach *string) Val {
	ex.used["abstracted: channel receive (value unconstrained, ordering trusted)"] = true
	et := x.X.Type().Underlying().(*types.Chan).Elem()
	var v Val
	if x.CommaOk {
		v = ex.freshVal(et, st, "recv")
		ok := ex.freshConst("recvok", sBool)
		v = Val{L: append(append([]string{}, v.L...), ok)}
	} else {
		v = ex.freshVal(et, st, "recv")
	}
	n := ex.advanceClock(st, *reach)
	if ex.pure == 0 {
		// a receive from a time.After channel completes no earlier than its firing time
		ex.registerKey("X|timer", arrSort(sInt, sInt))
		ex.assume(app("<=", sel(ex.heapGet(st, "X|timer", arrSort(sInt, sInt)), ch.L[0]), n))
	}
	return v
}

// goStmt: spawning a goroutine from verified code is handled by spawn declarations.
func (fr *frame) goStmt(x *ssa.Go, st *State, reach *string) {
	var f Val
	switch callee := x.Call.Value.(type) {
	case *ssa.MakeClosure:
		f = fr.val(callee)
	case *ssa.Function:
		f = Val{T: callee.Type(), L: []string{"1"}, F: &FuncInfo{Fn: callee}}
	default:
		f = fr.val(x.Call.Value)
	}
	var args []Val
	for _, a := range x.Call.Args {
		args = append(args, fr.val(a))
	}
	fr.spawnArgs = args
	fr.spawnClosure(f, st, *reach, fmt.Sprintf("go statement in %s", fr.fn.Name()))
	fr.spawnArgs = nil
}

func (c *Contract) spawnOK() bool { return len(c.Spawns) > 0 }

var _ = token.ADD


