package main

import (
	"go/types"
	"strings"
	"sync"

	"golang.org/x/tools/go/ssa"
	"golang.org/x/tools/go/ssa/ssautil"
)

// Fields that are immutable after construction.
//
// A top-level field f of an individually allocated struct type S is "written" when some instruction anywhere in the
// loaded program (repository and dependencies) can change it on an object that already exists:
//   * a Store whose address is &x.f (or an address inside x.f) where x is not an allocation of the same function,
//   * a Store of a whole S through a *S that is not an allocation of the same function,
//   * the address &x.f (or an address inside it) is used for anything but a direct load, a direct store or a
//     further field/index address (it escapes: a method with pointer receiver, an argument, a stored pointer).
// Stores to an object the same function has just allocated (composite literals, constructors) do not count: such an
// object did not exist before the call in progress. A field that is never written keeps its value across every call
// for all objects that existed before the call, so a heap havoc (modifies *, join) need not forget it.
// Unchecked: writes through reflect / unsafe (none in the repository's own code paths under contract).

var (
	fieldWritesOnce sync.Once
	fieldWritten    map[string]bool // typeKey(S) + "|" + field
	structWritten   map[string]bool // typeKey(S): some whole-struct store
)

func derefStruct(t types.Type) (types.Type, *types.Struct) {
	p, ok := t.Underlying().(*types.Pointer)
	if !ok {
		return nil, nil
	}
	s, ok := p.Elem().Underlying().(*types.Struct)
	if !ok {
		return nil, nil
	}
	return p.Elem(), s
}

// rootField walks an address back to the root object pointer and the top-level field of the root struct it lies in.
func rootField(a ssa.Value) (root ssa.Value, st types.Type, field string, ok bool) {
	for {
		switch x := a.(type) {
		case *ssa.FieldAddr:
			t, s := derefStruct(x.X.Type())
			if s == nil {
				return nil, nil, "", false
			}
			switch x.X.(type) {
			case *ssa.FieldAddr, *ssa.IndexAddr:
				// nested: keep walking, the top-level field is determined further out
				r, rt, f, ok2 := rootField(x.X)
				if ok2 {
					return r, rt, f, true
				}
				// the outer address is not inside an individually allocated struct (e.g. slice element): this
				// struct is the element itself — not an F| key
				return nil, nil, "", false
			}
			return x.X, t, s.Field(x.Field).Name(), true
		case *ssa.IndexAddr:
			// index into an array that lives inside a struct field
			if _, isPtr := x.X.Type().Underlying().(*types.Pointer); !isPtr {
				return nil, nil, "", false // slice element
			}
			a = x.X
		default:
			return nil, nil, "", false
		}
	}
}

func isFreshIn(fn *ssa.Function, v ssa.Value) bool {
	al, ok := v.(*ssa.Alloc)
	return ok && al.Parent() == fn
}

func (w *World) computeFieldWrites() {
	fieldWritten = map[string]bool{}
	structWritten = map[string]bool{}
	mark := func(t types.Type, f string) { fieldWritten[typeKey(t)+"|"+f] = true }
	for fn := range ssautil.AllFunctions(w.prog) {
		for _, b := range fn.Blocks {
			for _, ins := range b.Instrs {
				switch x := ins.(type) {
				case *ssa.Store:
					if r, t, f, ok := rootField(x.Addr); ok {
						if !isFreshIn(fn, r) {
							mark(t, f)
						}
					} else if t, s := derefStruct(x.Addr.Type()); s != nil {
						if !isFreshIn(fn, x.Addr) {
							structWritten[typeKey(t)] = true
						}
					}
				case *ssa.FieldAddr, *ssa.IndexAddr:
					v := ins.(ssa.Value)
					r, t, f, ok := rootField(v)
					if !ok {
						continue
					}
					_ = r
					for _, ref := range *v.Referrers() {
						switch u := ref.(type) {
						case *ssa.Store:
							if u.Val == v {
								mark(t, f) // the address itself is stored somewhere
							}
						case *ssa.UnOp, *ssa.FieldAddr, *ssa.IndexAddr, *ssa.DebugRef:
						default:
							mark(t, f)
						}
					}
				}
			}
		}
	}
}

// immutableFieldKey reports whether heap key (F|Type|leaf) names a field that is never written after construction.
func (w *World) immutableFieldKey(key string) bool {
	if !strings.HasPrefix(key, "F|") {
		return false
	}
	fieldWritesOnce.Do(w.computeFieldWrites)
	rest := key[2:]
	i := strings.LastIndex(rest, "|")
	if i < 0 {
		return false
	}
	t, leaf := rest[:i], rest[i+1:]
	if structWritten[t] {
		return false
	}
	f := leaf
	if j := strings.Index(f, "."); j >= 0 {
		f = f[:j]
	}
	return !fieldWritten[t+"|"+f]
}
