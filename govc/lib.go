package main

import (
	"go/constant"
	"go/types"
	"strings"

	"golang.org/x/tools/go/ssa"
)

type libFn func(c *callCtx) Val

var libHandlers = map[string]libFn{}

// pureLib: library functions whose result is left unconstrained and that do not touch tracked state.
var pureLib = map[string]bool{
	"fmt.Sprintf": true, "fmt.Sprint": true, "fmt.Println": true, "fmt.Printf": true, "fmt.Sprintln": true,
	"encoding/hex.EncodeToString": true,
	"strconv.Itoa":                true,
	"(net/netip.Addr).String": true, "(net/netip.AddrPort).String": true,
	"net.JoinHostPort": true, "net.SplitHostPort": true,
	"math/rand.Uint32": true, "math/rand/v2.Uint32": true,
	"(time.Duration).String": true,
	"net/netip.ParseAddr": true, "net/netip.MustParseAddr": true, "net.LookupIP": true, "(net.IP).To16": true,

}

var purePkgs = map[string]bool{"strings": true, "unicode": true, "unicode/utf8": true, "math/bits": true}

// inlineLib: library functions simple enough to be executed from their own source.
var inlineLib = map[string]bool{
	"(net.IP).To4": true, "(net.IP).IsPrivate": true, "(net/url.Values).Get": true,
}

// libGlobalInts: library package-level variables that are set once at init and then only read.
var libGlobalInts = map[string]int64{
	"github.com/google/gopacket/layers.LayerTypeIPv4":     20,
	"github.com/google/gopacket/layers.LayerTypeIPv6":     21,
	"github.com/google/gopacket/layers.LayerTypeICMPv4":   19,
	"github.com/google/gopacket/layers.LayerTypeICMPv6":   57,
	"github.com/google/gopacket/layers.LayerTypeTCP":      44,
	"github.com/google/gopacket/layers.LayerTypeUDP":      45,
	"github.com/google/gopacket/layers.LayerTypeEthernet": 17,
	"github.com/google/gopacket/layers.LayerTypeICMPv6Echo": 58,
	"github.com/google/gopacket.LayerTypeZero":            0,
	"github.com/google/gopacket.LayerTypePayload":         2,
	"github.com/google/gopacket.LayerTypeFragment":        3,
	"github.com/google/gopacket.LayerTypeDecodeFailure":   1,
}

func reg(name string, h libFn) { libHandlers[name] = h }

func (c *callCtx) safety(cond, what string) {
	if c.fr != nil && c.reach != nil && c.instr != nil {
		c.fr.safety(c.instr, *c.reach, cond, what)
	}
}

func (c *callCtx) r() string {
	if c.reach == nil {
		return "true"
	}
	return *c.reach
}

func errorT() types.Type { return types.Universe.Lookup("error").Type() }

// constString extracts a constant string argument.
func constString(v ssa.Value) (string, bool) {
	if c, ok := v.(*ssa.Const); ok && c.Value != nil && c.Value.Kind() == constant.String {
		return constant.StringVal(c.Value), true
	}
	return "", false
}

// wVerbArgs returns the indices of the arguments consumed by %w verbs in a format string.
func wVerbArgs(format string) []int {
	var out []int
	arg := 0
	for i := 0; i < len(format); i++ {
		if format[i] != '%' {
			continue
		}
		i++
		if i >= len(format) {
			break
		}
		if format[i] == '%' {
			continue
		}
		// flags, width, precision
		for i < len(format) && strings.ContainsRune("+-# 0123456789.", rune(format[i])) {
			i++
		}
		if i >= len(format) {
			break
		}
		if format[i] == '*' {
			arg++
			i++
		}
		if format[i] == 'w' {
			out = append(out, arg)
		}
		arg++
	}
	return out
}

func init() {
	reg("fmt.Errorf", func(c *callCtx) Val {
		ex := c.ex
		var wrapped []Val
		if c.cc != nil {
			if f, ok := constString(c.cc.Args[0]); ok {
				va := c.args[1]
				for _, i := range wVerbArgs(f) {
					e := ex.sliceLoad(c.st, va, num(int64(i)))
					wrapped = append(wrapped, e)
				}
			} else {
				ex.used["fmt.Errorf with non-constant format: chain unconstrained"] = true
				return ex.freshVal(errorT(), c.st, "errorf")
			}
		}
		return ex.newWrappedError(c.st, wrapped, "true", "errorf")
	})
	reg("errors.New", func(c *callCtx) Val {
		return c.ex.newWrappedError(c.st, nil, "true", "errnew")
	})
	reg("errors.As", func(c *callCtx) Val {
		ex := c.ex
		err := c.args[0]
		target := c.args[1] // any holding **T (or *I)
		var tt types.Type
		if c.cc != nil {
			if mi, ok := c.cc.Args[1].(*ssa.MakeInterface); ok {
				tt = mi.X.Type()
			}
		}
		if tt == nil {
			ex.used["errors.As with non-static target: result unconstrained"] = true
			return ex.freshVal(types.Typ[types.Bool], c.st, "as")
		}
		want := tt.Underlying().(*types.Pointer).Elem() // *T or interface
		ok := ex.name("as", ex.chainTerm(err, ex.w.typeID(want)), sBool)
		// on success the target cell receives a non-nil value of type want
		cell := Val{T: tt, L: []string{target.L[1]}}
		if ex.pure == 0 {
			old := ex.load(c.st, cell)
			nv := ex.freshVal(want, c.st, "astarget")
			for i := range nv.L {
				nv.L[i] = ite(ok, nv.L[i], old.L[i])
			}
			ex.assume(imp(ok, not(eq(nv.L[0], "0"))))
			ex.store(c.st, cell, nv)
		}
		return boolVal(ok)
	})
	reg("errors.Is", func(c *callCtx) Val {
		ex := c.ex
		if c.cc != nil {
			if ld, ok := c.cc.Args[1].(*ssa.UnOp); ok {
				if g, ok := ld.X.(*ssa.Global); ok && g.Pkg.Pkg.Path() == "os" && g.Name() == "ErrDeadlineExceeded" {
					return boolVal(ex.chainTerm(c.args[0], chainDeadline))
				}
			}
		}
		ex.declareFun("err.is", []string{sInt, sInt, sInt, sInt}, sBool)
		ex.used["uninterpreted: errors.Is with a non-deadline target"] = true
		return boolVal(app("err.is", c.args[0].L[0], c.args[0].L[1], c.args[1].L[0], c.args[1].L[1]))
	})
	reg("errors.Join", func(c *callCtx) Val {
		ex := c.ex
		va := c.args[0]
		if n, ok := isConstTerm(va.L[2]); ok && n.IsInt64() && n.Int64() <= 8 {
			var es []Val
			var nn []string
			for i := int64(0); i < n.Int64(); i++ {
				e := ex.sliceLoad(c.st, va, num(i))
				es = append(es, e)
				nn = append(nn, not(eq(e.L[0], "0")))
			}
			return ex.newWrappedError(c.st, es, ex.name("joinnn", or(nn...), sBool), "join")
		}
		// dynamic slice: non-nil iff some element is non-nil; chain is the union over the elements
		ex.declChain()
		iv := "i!join"
		e := ex.sliceLoad(c.st, va, iv)
		anyNN := "(exists ((" + iv + " Int)) " + and(app("<=", "0", iv), app("<", iv, va.L[2]), not(eq(e.L[0], "0"))) + ")"
		v := ex.newWrappedError2(c.st, nil, "true", "join", true)
		nn := ex.freshConst("joinnn", sBool)
		// the chain of the result is the union of the chains of the elements
		for _, k := range ex.trackedChainIDs() {
			ck := ex.chainTerm(v, k)
			ex.assume("(forall ((" + iv + " Int)) (! " + imp(and(app("<=", "0", iv), app("<", iv, va.L[2]), ex.chainTerm(e, k)), ck) + " :pattern (" + e.L[0] + ")))")
			ex.assume(imp(ck, "(exists (("+iv+" Int)) "+and(app("<=", "0", iv), app("<", iv, va.L[2]), ex.chainTerm(e, k))+")"))
		}
		ex.assume(eq(nn, anyNN))
		// ground witnesses: a non-nil first or last element makes the result non-nil
		e0 := ex.sliceLoad(c.st, va, "0")
		el := ex.sliceLoad(c.st, va, app("-", va.L[2], "1"))
		ex.assume(imp(and(app("<", "0", va.L[2]), or(not(eq(e0.L[0], "0")), not(eq(el.L[0], "0")))), nn))
		// every non-nil element is in the chain of the result (errors.Is / errors.As see each joined error)
		ex.assume("(forall ((" + iv + " Int)) (! " + imp(and(app("<=", "0", iv), app("<", iv, va.L[2]), not(eq(e.L[0], "0"))), app("err.wraps", v.L[0], v.L[1], e.L[0], e.L[1])) + " :pattern (" + e.L[0] + ")))")
		out := Val{T: errorT(), L: []string{ite(nn, v.L[0], "0"), ite(nn, v.L[1], "0")}}
		ex.used["errors.Join over a dynamic slice: membership of each element in the chain is assumed, not derived"] = true
		return out
	})
	reg("slices.IndexFunc", func(c *callCtx) Val {
		// least index whose element satisfies the (pure) predicate, or -1
		ex := c.ex
		s := c.args[0]
		f := c.args[1]
		if f.F == nil || f.F.Fn == nil {
			panic(unsupported("slices.IndexFunc with non-static predicate"))
		}
		pred := func(i string) string {
			ex.pure++
			defer func() { ex.pure-- }()
			return ex.pureScope(func() string {
				e := ex.sliceLoad(c.st, s, i)
				return ex.callPure(f.F.Fn, []Val{e}, f.F.Bind, c.st).L[0]
			})
		}
		r := ex.freshConst("indexfunc", sInt)
		iv := ex.fresh("i!if")
		ex.assume(and(app("<=", "(- 1)", r), app("<", r, s.L[2])))
		ex.assume(imp(app(">=", r, "0"), pred(r)))
		rec := &qRecord{seen: map[string]bool{}}
		ex.qrec[iv] = rec
		body := not(pred(iv))
		delete(ex.qrec, iv)
		ex.assume(orientQuant("forall", iv, and(app("<=", "0", iv), app("<", iv, ite(app(">=", r, "0"), r, s.L[2]))), body, rec))
		return intVal(r)
	})
	reg("slices.Contains", func(c *callCtx) Val {
		ex := c.ex
		s := c.args[0]
		x := c.args[1]
		if n, ok := isConstTerm(s.L[2]); ok && n.IsInt64() && n.Int64() <= 16 {
			var ors []string
			for i := int64(0); i < n.Int64(); i++ {
				ors = append(ors, ex.valEq(ex.sliceLoad(c.st, s, num(i)), x))
			}
			return boolVal(or(ors...))
		}
		iv := ex.fresh("i!ct")
		rec := &qRecord{seen: map[string]bool{}}
		ex.qrec[iv] = rec
		body := ex.valEq(ex.sliceLoad(c.st, s, iv), x)
		delete(ex.qrec, iv)
		return boolVal(orientQuant("exists", iv, and(app("<=", "0", iv), app("<", iv, s.L[2])), body, rec))
	})
	reg("slices.Clip", func(c *callCtx) Val {
		s := c.args[0]
		return sliceVal(s.T, s.L[0], s.L[1], s.L[2], s.L[2])
	})
	reg("slices.Clone", func(c *callCtx) Val {
		// same elements in a fresh array; nil stays nil
		ex := c.ex
		s := c.args[0]
		et := sliceElemType(s.T)
		r := ex.alloc(c.st)
		for _, l := range leaves(et) {
			key := "E|" + typeKey(et) + "|" + l.Name
			srt := heapKeySort("E", l.Sort, "")
			h := ex.heapGet(c.st, key, srt)
			row := ex.freshConst("clone", arrSort(sInt, l.Sort))
			iv := "i!cl"
			ex.assume("(forall ((" + iv + " Int)) (! " + imp(and(app("<=", "0", iv), app("<", iv, s.L[2])), eq(sel(row, iv), sel(h, s.L[0], at(s.L[1], iv)))) + " :pattern (" + sel(row, iv) + ")))")
			ex.heapSet(c.st, key, srt, sto(h, r, row))
		}
		isNil := eq(s.L[0], "0")
		return sliceVal(s.T, ite(isNil, "0", r), "0", ite(isNil, "0", s.L[2]), ite(isNil, "0", s.L[2]))
	})
	reg("(net.IP).Equal", func(c *callCtx) Val {
		// transcribed from net/ip.go: equal lengths compare bytewise; 4-vs-16 compares against the mapped form
		ex := c.ex
		a, b := c.args[0], c.args[1]
		if b.L[2] == "0" {
			return boolVal(eq(a.L[2], "0"))
		}
		if a.L[2] == "0" {
			return boolVal(eq(b.L[2], "0"))
		}
		ex.declareFun("ip.equal", []string{arrSort(sInt, sInt), sInt, sInt, arrSort(sInt, sInt), sInt, sInt}, sBool)
		ex.used["uninterpreted: net.IP.Equal on two non-empty addresses"] = true
		key, srt := ex.byteKey()
		h := ex.heapGet(c.st, key, srt)
		return boolVal(app("ip.equal", sel(h, a.L[0]), a.L[1], a.L[2], sel(h, b.L[0]), b.L[1], b.L[2]))
	})
	// strconv.Atoi / ParseBool: value and success are functions of the string alone (ASSUMED libspec)
	parse := func(name string, valSort string, valT types.Type) libFn {
		return func(c *callCtx) Val {
			ex := c.ex
			ex.declareFun(name+".val", []string{sStr}, valSort)
			ex.declareFun(name+".ok", []string{sStr}, sBool)
			s := c.args[0].L[0]
			ok := app(name+".ok", s)
			v := app(name+".val", s)
			if valSort == sInt && ex.pure == 0 {
				lo, hi, _ := intRange(valT)
				ex.assume(and(app("<=", lo, v), app("<=", v, hi)))
			}
			zero := "0"
			if valSort == sBool {
				zero = "false"
			}
			e := ex.newWrappedError(c.st, nil, ex.name("perr", not(ok), sBool), "parseerr")
			return Val{L: []string{ite(ok, v, zero), e.L[0], e.L[1]}}
		}
	}
	reg("strconv.Atoi", parse("strconv.atoi", sInt, types.Typ[types.Int]))
	reg("strconv.ParseBool", parse("strconv.parsebool", sBool, types.Typ[types.Bool]))
	reg("(*net/url.URL).Query", func(c *callCtx) Val {
		// a fresh non-nil map decoded from the URL; its contents are unconstrained
		ex := c.ex
		c.safety(not(eq(c.args[0].L[0], "0")), "nil *url.URL")
		return Val{L: []string{ex.alloc(c.st)}}
	})
	// constructors of opaque gopacket objects: a fresh, non-nil object
	reg("github.com/google/gopacket.NewDecodingLayerParser", func(c *callCtx) Val { return Val{L: []string{c.ex.alloc(c.st)}} })
	serBuf := func(c *callCtx) Val {
		return Val{L: []string{num(int64(c.ex.w.typeIDByName("*gopacket.serializeBuffer"))), c.ex.alloc(c.st)}}
	}
	reg("github.com/google/gopacket.NewSerializeBuffer", serBuf)
	reg("github.com/google/gopacket.NewSerializeBufferExpectedSize", serBuf)
	// sync/atomic counters: a linearizable fetch-and-add on the modelled value (A-JOIN lists atomics as trusted)
	atomicAdd := func(bits uint) libFn {
		return func(c *callCtx) Val {
			ex := c.ex
			p := c.args[0]
			cur := ex.load(c.st, p)
			nv := app("mod", app("+", cur.L[0], c.args[1].L[0]), pow2(bits))
			nv = ex.name("atomic", nv, sInt)
			if ex.pure == 0 {
				ex.store(c.st, p, Val{T: cur.T, L: []string{nv}})
			}
			return scalar(types.Typ[types.Uint64], nv)
		}
	}
	reg("(*sync/atomic.Uint32).Add", atomicAdd(32))
	reg("(*sync/atomic.Uint64).Add", atomicAdd(64))
	reg("(*sync/atomic.Uint32).Load", func(c *callCtx) Val { return c.ex.load(c.st, c.args[0]) })
	reg("math.Abs", func(c *callCtx) Val {
		x := c.args[0].L[0]
		return scalar(types.Typ[types.Float64], ite(app(">=", x, "0.0"), x, app("-", x)))
	})
	reg("(time.Duration).Seconds", func(c *callCtx) Val {
		c.ex.used["A-REAL: floating point treated as real arithmetic"] = true
		return scalar(types.Typ[types.Float64], app("/", app("to_real", c.args[0].L[0]), "1000000000.0"))
	})
	reg("(time.Duration).Milliseconds", func(c *callCtx) Val {
		d := c.args[0].L[0]
		q := ite(app(">=", d, "0"), app("div", d, "1000000"), app("-", app("div", app("-", d), "1000000")))
		return scalar(types.Typ[types.Int64], q)
	})
}
