package main

import "strings"

// splitSexp splits the arguments of a top-level s-expression "(op a b c)".
func splitSexp(s string) (op string, args []string, ok bool) {
	s = strings.TrimSpace(s)
	if len(s) < 2 || s[0] != '(' || s[len(s)-1] != ')' {
		return "", nil, false
	}
	body := s[1 : len(s)-1]
	d := 0
	start := -1
	var toks []string
	for i := 0; i < len(body); i++ {
		c := body[i]
		switch {
		case c == '(':
			if d == 0 && start < 0 {
				start = i
			}
			d++
		case c == ')':
			d--
			if d == 0 {
				toks = append(toks, body[start:i+1])
				start = -1
			}
		case c == ' ' || c == '\n' || c == '\t':
			if d == 0 && start >= 0 {
				toks = append(toks, body[start:i])
				start = -1
			}
		default:
			if d == 0 && start < 0 {
				start = i
			}
		}
	}
	if start >= 0 {
		toks = append(toks, body[start:])
	}
	if len(toks) == 0 {
		return "", nil, false
	}
	return toks[0], toks[1:], true
}

// conjuncts splits a goal of the shape (=> A (=> B (and c1 c2 ...))) into one goal per conjunct.
func conjuncts(goal string) []string {
	op, args, ok := splitSexp(goal)
	if !ok {
		return []string{goal}
	}
	switch {
	case op == "=>" && len(args) == 2:
		var out []string
		for _, c := range conjuncts(args[1]) {
			out = append(out, "(=> "+args[0]+" "+c+")")
		}
		return out
	case op == "and":
		var out []string
		for _, a := range args {
			out = append(out, conjuncts(a)...)
		}
		return out
	case op == "ite" && len(args) == 3:
		var out []string
		for _, c := range conjuncts(args[1]) {
			out = append(out, "(=> "+args[0]+" "+c+")")
		}
		for _, c := range conjuncts(args[2]) {
			out = append(out, "(=> (not "+args[0]+") "+c+")")
		}
		return out
	}
	return []string{goal}
}
