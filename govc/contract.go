package main

import (
	"fmt"
	"go/ast"
	"go/parser"
	"go/token"
	"go/types"
	"regexp"
	"sort"
	"strings"

	"golang.org/x/tools/go/packages"
	"golang.org/x/tools/go/ssa"
)

// Clause is one labelled specification expression.
type Clause struct {
	Label string
	Props []string
	Text  string
	Expr  ast.Expr
	Pos   string
}

// Contract holds the specification attached to one function (or interface method).
type Contract struct {
	Name     string
	Pkg      *ssa.Package
	Fn       *ssa.Function
	Requires []*Clause
	Ensures  []*Clause
	Loops    map[int][]*Clause
	Modifies []string
	HasMod   bool
	Trusted  bool     // assumed, never verified (external or out-of-reach function)
	TrustWhy string   // reason given for trusting
	Verify   bool     // generate a verification unit
	Safety   []string // property ids served by the no-panic obligations of this unit
	Pos      string
	Ghosts   []ghostDecl
	Monitors []*Monitor
	Spawns   []spawnDecl
	Terminates map[int]string
	Decreases  map[int]*Clause // loop ordinal → integer variant: non-negative whenever the body runs, strictly smaller at every back edge
	Pure     bool
	IfaceKey string // for interface method contracts: "pkgpath.Iface.Method"
	Notes    []string
	Covers   []*Clause
	Lemmas   []*Clause
	NoInline bool
	Inline   bool // callers execute the body instead of using the contract
	Steps    map[int][]*Clause // loop ordinal → two-state clauses checked at back edges
	Stable   map[string]bool   // ensures labels assumed by the spawner after the join
	Before   map[string][]*Clause // callee name → assertions checked in the state just before each call of it
	OnUnlock []ghostUpd           // ghost updates performed when this function releases a monitor (auxiliary code)
	AtUnlock []*Clause            // guarantee checked at every release of a monitor by this function (atlock(e) = e at acquisition)
	Contrib  map[string]int       // counter ghost → total amount one execution of this function adds to it
	// callee → precondition labels that this unit does not establish but assumes (each use is listed in the evidence as
	// an ASSUMED precondition with the stated reason); for thin wrappers whose callees need facts produced elsewhere
	// Boundary: when this unit is in a property's closure only because a tagged unit calls it (it carries no clause for
	// that property itself), the closure does not descend further into its own callees: they are verified by the checks
	// of the properties they serve. Used on the orchestration layer, below which sits every protocol implementation.
	Boundary bool
	// AssumedEnsures: postconditions of a *verified* function that are assumed at call sites but not proved on its body
	// (an abstraction the body cannot establish, e.g. interface-level typestate of an object wrapping an OS handle);
	// every use is listed in the evidence
	AssumedEnsures []*Clause
	TrustPre    map[string]map[string]bool
	TrustPreWhy map[string]string
	// IfaceEnsures: postconditions of interface-protocol contracts (iface I.m) that this function, as the method m of
	// a type implementing I, must establish too (behavioural subtyping). Only clauses over real state are inherited:
	// a clause that speaks about ghost state of the interface-level abstraction (isOpen, sendN, ioFail, the clock …)
	// cannot be proved on a body that does not maintain that ghost, and stays part of the interface assumption.
	IfaceEnsures []ifaceClause
}

type ifaceClause struct {
	Cl     *Clause
	From   *Contract
	Params []string // "self", then the interface method's parameter names
}

// abstractGhostCalls: specification functions that read ghost state
var abstractGhostCalls = map[string]bool{"now": true, "ncalls": true, "lastres": true, "lastarg": true, "selb": true, "sel": true,
	"nspawned": true, "done": true, "cancelled": true, "held": true, "ctxTimeout": true, "rangeidx": true}

// linkIfaceRefinement attaches the ghost-free postconditions of every interface-protocol contract to the verified
// contracts of the repository methods that implement the interface.
func (w *World) linkIfaceRefinement() {
	ghosts := map[string]bool{"clock": true, "wrN": true, "wrClock": true, "ioFail": true, "tcpDialed": true, "isOpen": true, "osOpen": true,
		"rdSet": true, "closeN": true, "connKind": true}
	for _, c := range w.allContracts {
		for _, g := range c.Ghosts {
			ghosts[g.Name] = true
		}
	}
	ghostFree := func(cl *Clause) bool {
		ok := true
		ast.Inspect(cl.Expr, func(n ast.Node) bool {
			switch x := n.(type) {
			case *ast.Ident:
				if ghosts[x.Name] {
					ok = false
				}
			case *ast.CallExpr:
				if id, isId := x.Fun.(*ast.Ident); isId && abstractGhostCalls[id.Name] {
					ok = false
				}
			}
			return ok
		})
		return ok
	}
	var keys []string
	for k := range w.ifaceContracts {
		keys = append(keys, k)
	}
	sort.Strings(keys)
	for _, key := range keys {
		ic := w.ifaceContracts[key]
		i := strings.LastIndex(key, ".")
		j := strings.LastIndex(key[:i], ".")
		if i < 0 || j < 0 {
			continue
		}
		pkgPath, iname, mname := key[:j], key[j+1:i], key[i+1:]
		if ic.Pkg == nil || ic.Pkg.Pkg.Path() != pkgPath {
			continue
		}
		obj := ic.Pkg.Pkg.Scope().Lookup(iname)
		if obj == nil {
			continue
		}
		it, ok := obj.Type().Underlying().(*types.Interface)
		if !ok {
			continue
		}
		var msig *types.Signature
		for k := 0; k < it.NumMethods(); k++ {
			if it.Method(k).Name() == mname {
				msig = it.Method(k).Type().(*types.Signature)
			}
		}
		if msig == nil {
			continue
		}
		params := []string{"self"}
		for k := 0; k < msig.Params().Len(); k++ {
			params = append(params, msig.Params().At(k).Name())
		}
		for fn, c := range w.contracts {
			if c.Trusted || !c.Verify || fn.Name() != mname || fn.Signature.Recv() == nil {
				continue
			}
			if !types.Implements(fn.Signature.Recv().Type(), it) {
				continue
			}
			have := map[string]bool{}
			for _, e := range c.IfaceEnsures {
				have[e.Cl.Label] = true
			}
			for _, cl := range ic.Ensures {
				if ghostFree(cl) && !have[cl.Label] {
					c.IfaceEnsures = append(c.IfaceEnsures, ifaceClause{Cl: cl, From: ic, Params: params})
				}
			}
		}
	}
}

// ghostUpd: NAME += EXPR at the release of monitor Mutex.
type ghostUpd struct {
	Mutex string
	Name  string
	Expr  *Clause
}

type ghostDecl struct {
	Name string
	Sort string
	Init string // "NAME SORT = V": local auxiliary variable of the declaring function, initialised to V
}

type Monitor struct {
	Mutex    string   // name of the mutex variable/field path
	Protects []string // names of protected variables / fields
	Invs     []*Clause
}

type spawnDecl struct {
	Closure int
	Role    string
}

// Unit is a function verified against its contract.
type Unit struct {
	Name        string
	Fn          *ssa.Function
	C           *Contract
	SafetyProps []string
}

var clauseRe = regexp.MustCompile(`^(requires|ensures|assumed|invariant|cover|lemma)(?:\[([^\]]*)\])?\s+(.*)$`)

// splitLabel splits "C01+C03.slot" into label and property ids.
func splitLabel(l string) (string, []string) {
	var props []string
	head := l
	if i := strings.Index(l, "."); i >= 0 {
		head = l[:i]
	}
	for _, p := range strings.Split(head, "+") {
		if regexp.MustCompile(`^C[0-9]{2,3}$`).MatchString(p) {
			props = append(props, p)
		}
	}
	return l, props
}

func (w *World) parseContracts(pkgs []*packages.Package) error {
	for _, p := range pkgs {
		sp := w.prog.Package(p.Types)
		if sp == nil {
			continue
		}
		for i, f := range p.Syntax {
			name := p.CompiledGoFiles[i]
			if !strings.HasSuffix(name, "_verif.go") {
				continue
			}
			var lines []string
			var poss []string
			for _, cg := range f.Comments {
				for _, c := range cg.List {
					if strings.HasPrefix(c.Text, "//@") {
						lines = append(lines, strings.TrimPrefix(c.Text, "//@"))
						pp := w.fset.Position(c.Pos())
						poss = append(poss, fmt.Sprintf("%s:%d", strings.TrimPrefix(pp.Filename, repoDir()+"/"), pp.Line))
					}
				}
			}
			if err := w.parseContractLines(sp, lines, poss); err != nil {
				return fmt.Errorf("%s: %w", name, err)
			}
		}
	}
	return nil
}

var keywords = map[string]bool{"assumed": true, "boundary": true, "trustpre": true, "func": true, "before": true, "onunlock": true, "atunlock": true, "contributes": true, "closure": true, "assume": true, "requires": true, "ensures": true, "modifies": true, "loop": true,
	"safety": true, "ghost": true, "monitor": true, "inv": true, "spawn": true, "pure": true, "note": true, "cover": true, "lemma": true, "iface": true, "noinline": true, "trusted": true, "inline": true, "stable": true}

func firstWord(s string) string {
	s = strings.TrimSpace(s)
	for i, c := range s {
		if !(c >= 'a' && c <= 'z') {
			return s[:i]
		}
	}
	return s
}

func (w *World) parseContractLines(sp *ssa.Package, lines, poss []string) error {
	// join continuation lines
	var jl, jp []string
	for i, l := range lines {
		t := strings.TrimSpace(l)
		if t == "" {
			continue
		}
		fw := firstWord(t)
		if !keywords[fw] && len(jl) > 0 {
			jl[len(jl)-1] += " " + t
			continue
		}
		jl = append(jl, t)
		jp = append(jp, poss[i])
	}
	var cur *Contract
	var curMon *Monitor
	for i, l := range jl {
		pos := jp[i]
		fw := firstWord(l)
		rest := strings.TrimSpace(l[len(fw):])
		switch fw {
		case "func", "assume", "iface":
			trusted := false
			if fw == "assume" {
				trusted = true
				rest = strings.TrimSpace(strings.TrimPrefix(rest, "func"))
			}
			c := &Contract{Name: rest, Pkg: sp, Loops: map[int][]*Clause{}, Trusted: trusted, Pos: pos, Terminates: map[int]string{}}
			if fw == "iface" {
				// iface Type.Method
				c.IfaceKey = sp.Pkg.Path() + "." + rest
				w.ifaceContracts[c.IfaceKey] = c
				c.Trusted = true
				c.TrustWhy = "interface protocol contract"
			} else {
				fn, err := w.resolveFunc(sp, rest)
				if err != nil {
					return fmt.Errorf("%s: contract-target-missing:%s: %v", pos, rest, err)
				}
				c.Fn = fn
				w.contracts[fn] = c
			}
			w.allContracts = append(w.allContracts, c)
			cur = c
			curMon = nil
		case "requires", "ensures", "cover", "lemma", "assumed":
			if cur == nil {
				return fmt.Errorf("%s: clause outside func", pos)
			}
			cl, err := parseClause(l, pos)
			if err != nil {
				return err
			}
			switch fw {
			case "requires":
				cur.Requires = append(cur.Requires, cl)
			case "ensures":
				cur.Ensures = append(cur.Ensures, cl)
				cur.Verify = true
			case "assumed":
				cur.AssumedEnsures = append(cur.AssumedEnsures, cl)
			case "cover":
				cur.Covers = append(cur.Covers, cl)
			case "lemma":
				cur.Lemmas = append(cur.Lemmas, cl)
				cur.Verify = true
			}
		case "loop":
			var ord int
			var tail string
			if _, err := fmt.Sscanf(rest, "%d", &ord); err != nil {
				return fmt.Errorf("%s: bad loop directive", pos)
			}
			tail = strings.TrimSpace(rest[strings.Index(rest, " ")+1:])
			if strings.HasPrefix(tail, "decreases") {
				f := strings.Fields(tail)
				lab := "variant"
				expr := strings.TrimSpace(strings.TrimPrefix(tail, "decreases"))
				if m := regexp.MustCompile(`^decreases\[([^\]]*)\]\s+(.*)$`).FindStringSubmatch(tail); m != nil {
					lab, expr = m[1], m[2]
				}
				_ = f
				cl, err := parseClause("invariant["+lab+"] "+expr, pos)
				if err != nil {
					return err
				}
				if cur.Decreases == nil {
					cur.Decreases = map[int]*Clause{}
				}
				cur.Decreases[ord] = cl
				cur.Verify = true
				continue
			}
			if strings.HasPrefix(tail, "terminates_by") {
				cur.Terminates[ord] = strings.TrimSpace(strings.TrimPrefix(tail, "terminates_by"))
				continue
			}
			if strings.HasPrefix(tail, "step") {
				// two-state clause checked at every back edge: iter(e) is e at the start of the iteration
				cl, err := parseClause("invariant"+strings.TrimPrefix(tail, "step"), pos)
				if err != nil {
					return err
				}
				if cur.Steps == nil {
					cur.Steps = map[int][]*Clause{}
				}
				cur.Steps[ord] = append(cur.Steps[ord], cl)
				continue
			}
			cl, err := parseClause(tail, pos)
			if err != nil {
				return err
			}
			cur.Loops[ord] = append(cur.Loops[ord], cl)
		case "onunlock":
			// onunlock MU ghost NAME += EXPR
			f := strings.Fields(rest)
			if len(f) < 5 || f[1] != "ghost" || f[3] != "+=" {
				return fmt.Errorf("%s: onunlock MU ghost NAME += EXPR", pos)
			}
			cl, err := parseClause("invariant[upd."+f[2]+"] "+strings.Join(f[4:], " "), pos)
			if err != nil {
				return err
			}
			cur.OnUnlock = append(cur.OnUnlock, ghostUpd{Mutex: f[0], Name: f[2], Expr: cl})
		case "atunlock":
			cl, err := parseClause("invariant"+strings.TrimPrefix(l, "atunlock"), pos)
			if err != nil {
				return err
			}
			cur.AtUnlock = append(cur.AtUnlock, cl)
			cur.Verify = true
		case "contributes":
			f := strings.Fields(rest)
			var n int
			if len(f) != 2 {
				return fmt.Errorf("%s: contributes NAME N", pos)
			}
			if _, err := fmt.Sscanf(f[1], "%d", &n); err != nil {
				return fmt.Errorf("%s: contributes NAME N", pos)
			}
			if cur.Contrib == nil {
				cur.Contrib = map[string]int{}
			}
			cur.Contrib[f[0]] = n
			cur.Verify = true
		case "trustpre":
			// trustpre CALLEE label1 label2 ... : reason
			parts := strings.SplitN(rest, ":", 2)
			f := strings.Fields(parts[0])
			if len(f) < 2 || len(parts) != 2 {
				return fmt.Errorf("%s: trustpre CALLEE LABEL... : REASON", pos)
			}
			if cur.TrustPre == nil {
				cur.TrustPre = map[string]map[string]bool{}
				cur.TrustPreWhy = map[string]string{}
			}
			if cur.TrustPre[f[0]] == nil {
				cur.TrustPre[f[0]] = map[string]bool{}
			}
			for _, l := range f[1:] {
				cur.TrustPre[f[0]][l] = true
			}
			cur.TrustPreWhy[f[0]] = strings.TrimSpace(parts[1])
		case "before":
			// before CALLEE assert[label] EXPR: checked in the caller's state right before every call of CALLEE
			f := strings.SplitN(rest, " ", 2)
			if len(f) != 2 || !strings.HasPrefix(strings.TrimSpace(f[1]), "assert") {
				return fmt.Errorf("%s: before CALLEE assert[label] EXPR", pos)
			}
			cl, err := parseClause("invariant"+strings.TrimPrefix(strings.TrimSpace(f[1]), "assert"), pos)
			if err != nil {
				return err
			}
			if cur.Before == nil {
				cur.Before = map[string][]*Clause{}
			}
			cur.Before[f[0]] = append(cur.Before[f[0]], cl)
			cur.Verify = true
		case "modifies":
			cur.HasMod = true
			for _, m := range splitTop(rest, ',') {
				m = strings.TrimSpace(m)
				if m != "" && m != "nothing" {
					cur.Modifies = append(cur.Modifies, m)
				}
			}
		case "safety":
			cur.Verify = true
			for _, p := range strings.Fields(strings.ReplaceAll(rest, ",", " ")) {
				cur.Safety = append(cur.Safety, p)
			}
		case "trusted":
			cur.Trusted = true
			cur.TrustWhy = rest
		case "pure":
			cur.Pure = true
		case "stable":
			if cur.Stable == nil {
				cur.Stable = map[string]bool{}
			}
			for _, l := range strings.Fields(strings.ReplaceAll(rest, ",", " ")) {
				cur.Stable[l] = true
			}
		case "boundary":
			cur.Boundary = true
		case "noinline":
			cur.NoInline = true
		case "inline":
			cur.Inline = true
		case "note":
			cur.Notes = append(cur.Notes, rest)
		case "ghost":
			f := strings.Fields(rest)
			if len(f) < 2 {
				return fmt.Errorf("%s: ghost NAME SORT", pos)
			}
			gd := ghostDecl{Name: f[0], Sort: strings.Join(f[1:], " ")}
			if i := strings.Index(gd.Sort, "="); i >= 0 {
				gd.Init = strings.TrimSpace(gd.Sort[i+1:])
				gd.Sort = strings.TrimSpace(gd.Sort[:i])
			}
			cur.Ghosts = append(cur.Ghosts, gd)
		case "monitor":
			// monitor MU protects a, b, c
			parts := strings.SplitN(rest, "protects", 2)
			if len(parts) != 2 {
				return fmt.Errorf("%s: monitor MU protects ...", pos)
			}
			m := &Monitor{Mutex: strings.TrimSpace(parts[0])}
			for _, p := range strings.Split(parts[1], ",") {
				if p = strings.TrimSpace(p); p != "" {
					m.Protects = append(m.Protects, p)
				}
			}
			cur.Monitors = append(cur.Monitors, m)
			curMon = m
		case "inv":
			if curMon == nil {
				return fmt.Errorf("%s: inv outside monitor", pos)
			}
			cl, err := parseClause("invariant"+strings.TrimPrefix(l, "inv"), pos)
			if err != nil {
				return err
			}
			curMon.Invs = append(curMon.Invs, cl)
		case "spawn":
			var n int
			var role string
			fmt.Sscanf(rest, "$%d role %s", &n, &role)
			cur.Spawns = append(cur.Spawns, spawnDecl{Closure: n, Role: role})
		default:
			return fmt.Errorf("%s: unknown directive %q", pos, l)
		}
	}
	return nil
}

func parseClause(l, pos string) (*Clause, error) {
	m := clauseRe.FindStringSubmatch(strings.TrimSpace(l))
	if m == nil {
		return nil, fmt.Errorf("%s: cannot parse clause %q", pos, l)
	}
	label := m[2]
	if label == "" {
		label = "anon"
	}
	lab, props := splitLabel(label)
	text := m[3]
	src := rewriteImp(text)
	e, err := parser.ParseExpr(src)
	if err != nil {
		return nil, fmt.Errorf("%s: clause %q: %v (rewritten: %s)", pos, text, err, src)
	}
	return &Clause{Label: lab, Props: props, Text: text, Expr: e, Pos: pos}, nil
}

// splitTop splits s on sep at bracket depth 0.
func splitTop(s string, sep byte) []string {
	var out []string
	d := 0
	last := 0
	inStr := false
	for i := 0; i < len(s); i++ {
		c := s[i]
		if inStr {
			if c == '\\' {
				i++
			} else if c == '"' {
				inStr = false
			}
			continue
		}
		switch c {
		case '"':
			inStr = true
		case '(', '[', '{':
			d++
		case ')', ']', '}':
			d--
		default:
			if c == sep && d == 0 {
				out = append(out, s[last:i])
				last = i + 1
			}
		}
	}
	out = append(out, s[last:])
	return out
}

// rewriteImp turns the infix operators "==>" (implication, lowest precedence,
// right associative) and "c ? a : b" into the pseudo-calls imp(a,b) / ite(c,a,b).
func rewriteImp(s string) string {
	s = strings.TrimSpace(s)
	// top-level ==>
	d := 0
	inStr := false
	for i := 0; i+2 < len(s); i++ {
		c := s[i]
		if inStr {
			if c == '\\' {
				i++
			} else if c == '"' {
				inStr = false
			}
			continue
		}
		switch c {
		case '"':
			inStr = true
		case '(', '[', '{':
			d++
		case ')', ']', '}':
			d--
		}
		if d == 0 && s[i:i+3] == "==>" {
			return "imp(" + rewriteImp(s[:i]) + ", " + rewriteImp(s[i+3:]) + ")"
		}
	}
	// top-level ?:
	d = 0
	q := -1
	for i := 0; i < len(s); i++ {
		c := s[i]
		switch c {
		case '(', '[', '{':
			d++
		case ')', ']', '}':
			d--
		case '?':
			if d == 0 && q < 0 {
				q = i
			}
		case ':':
			if d == 0 && q >= 0 {
				return "ite(" + rewriteImp(s[:q]) + ", " + rewriteImp(s[q+1:i]) + ", " + rewriteImp(s[i+1:]) + ")"
			}
		}
	}
	// recurse into bracket groups
	var b strings.Builder
	i := 0
	for i < len(s) {
		c := s[i]
		if c == '"' {
			j := i + 1
			for j < len(s) && s[j] != '"' {
				if s[j] == '\\' {
					j++
				}
				j++
			}
			b.WriteString(s[i:min(j+1, len(s))])
			i = j + 1
			continue
		}
		if c == '(' || c == '[' {
			// find matching
			dd := 0
			j := i
			for ; j < len(s); j++ {
				if s[j] == '(' || s[j] == '[' || s[j] == '{' {
					dd++
				} else if s[j] == ')' || s[j] == ']' || s[j] == '}' {
					dd--
					if dd == 0 {
						break
					}
				}
			}
			inner := s[i+1 : j]
			parts := splitTop(inner, ',')
			for k := range parts {
				parts[k] = rewriteImp(parts[k])
			}
			b.WriteByte(c)
			b.WriteString(strings.Join(parts, ", "))
			if j < len(s) {
				b.WriteByte(s[j])
			}
			i = j + 1
			continue
		}
		b.WriteByte(c)
		i++
	}
	return b.String()
}

// resolveFunc resolves "Name", "(T).Method", "(*T).Method", "Name$N", "pkg/path.Name" to an SSA function.
func (w *World) resolveFunc(sp *ssa.Package, name string) (*ssa.Function, error) {
	base := name
	var anon []int
	for {
		i := strings.LastIndex(base, "$")
		if i < 0 {
			break
		}
		var n int
		if _, err := fmt.Sscanf(base[i+1:], "%d", &n); err != nil {
			break
		}
		anon = append([]int{n}, anon...)
		base = base[:i]
	}
	var fn *ssa.Function
	if strings.HasPrefix(base, "(") {
		end := strings.Index(base, ")")
		tn := base[1:end]
		meth := strings.TrimPrefix(base[end+1:], ".")
		ptr := strings.HasPrefix(tn, "*")
		tn = strings.TrimPrefix(tn, "*")
		pkg := sp
		if i := strings.LastIndex(tn, "."); i >= 0 {
			pp := w.pkgByPathOrName(sp, tn[:i])
			if pp == nil {
				return nil, fmt.Errorf("package %s not found", tn[:i])
			}
			pkg = pp
			tn = tn[i+1:]
		}
		obj := pkg.Pkg.Scope().Lookup(tn)
		if obj == nil {
			return nil, fmt.Errorf("type %s not found", tn)
		}
		var t types.Type = obj.Type()
		if ptr {
			t = types.NewPointer(t)
		}
		ms := w.prog.MethodSets.MethodSet(t)
		for i := 0; i < ms.Len(); i++ {
			if ms.At(i).Obj().Name() == meth {
				fn = w.prog.MethodValue(ms.At(i))
			}
		}
		if fn == nil {
			return nil, fmt.Errorf("method %s not found on %s", meth, t)
		}
		// unwrap synthetic wrapper to the declared method when receiver kinds differ
	} else {
		pkg := sp
		nm := base
		if i := strings.LastIndex(base, "."); i >= 0 {
			pp := w.pkgByPathOrName(sp, base[:i])
			if pp == nil {
				return nil, fmt.Errorf("package %s not found", base[:i])
			}
			pkg = pp
			nm = base[i+1:]
		}
		fn = pkg.Func(nm)
		if fn == nil {
			return nil, fmt.Errorf("function %s not found", nm)
		}
	}
	for _, n := range anon {
		if n < 1 || n > len(fn.AnonFuncs) {
			return nil, fmt.Errorf("closure $%d not found in %s", n, fn)
		}
		fn = fn.AnonFuncs[n-1]
	}
	return fn, nil
}

func (w *World) pkgByPathOrName(from *ssa.Package, s string) *ssa.Package {
	if p, ok := w.pkgs[s]; ok {
		return p
	}
	for _, imp := range from.Pkg.Imports() {
		if imp.Name() == s || imp.Path() == s {
			return w.prog.Package(imp)
		}
	}
	for path, p := range w.pkgs {
		if strings.HasSuffix(path, "/"+s) {
			return p
		}
	}
	return nil
}

var _ = token.NoPos
