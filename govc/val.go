package main

import (
	"fmt"
	"go/types"
	"sort"
	"strings"

	"golang.org/x/tools/go/ssa"
)

type ptrKind int

const (
	pkObj    ptrKind = iota // points into a struct object; heap key F|Root|leaf indexed by ref
	pkCell                  // points to a cell of non-struct type; heap key C|Root|leaf indexed by ref
	pkElem                  // points to element idx of backing array ref; key E|Root|leaf indexed by ref,idx
	pkGlobal                // points into a package-level variable; key G|name|leaf
	pkArr                   // pointer to an array object [N]T; the ref doubles as backing-array ref, Root = T
)

// PtrInfo is the static shape of a pointer value.
type PtrInfo struct {
	Kind ptrKind
	Root types.Type
	Idx  string
	Glob *ssa.Global
	Path []int // struct field indices below Root leading to the pointee
}

type FuncInfo struct {
	Fn   *ssa.Function
	Bind []Val
	// abstract function value (parameter of func type): Name is used for ghost call counters
	Abstract string
}

// Val is a symbolic Go value: its type, its SMT leaf terms and, for pointers
// and function values, static shape information.
type Val struct {
	T types.Type
	L []string
	P *PtrInfo
	F *FuncInfo
}

func (v Val) String() string { return fmt.Sprintf("<%s %v>", shortType(v.T), v.L) }

func scalar(t types.Type, term string) Val { return Val{T: t, L: []string{term}} }

func boolVal(term string) Val { return Val{T: types.Typ[types.Bool], L: []string{term}} }
func intVal(term string) Val  { return Val{T: types.Typ[types.Int], L: []string{term}} }

func zeroVal(t types.Type) Val {
	ls := leaves(t)
	v := Val{T: t, L: make([]string, len(ls))}
	for i, l := range ls {
		v.L[i] = zeroLeaf(l)
	}
	return v
}

// ptrInfoOf returns the static shape of a pointer value, deriving the clean shape when none is attached.
func ptrInfoOf(v Val) *PtrInfo {
	if v.P != nil {
		return v.P
	}
	pt, ok := v.T.Underlying().(*types.Pointer)
	if !ok {
		panic(unsupported("ptrInfoOf on non-pointer " + v.T.String()))
	}
	e := pt.Elem()
	if _, isArr := e.Underlying().(*types.Array); isArr {
		return &PtrInfo{Kind: pkArr, Root: e.Underlying().(*types.Array).Elem()}
	}
	if isStructType(e) {
		return &PtrInfo{Kind: pkObj, Root: e}
	}
	return &PtrInfo{Kind: pkCell, Root: e}
}

func (p *PtrInfo) clean() bool {
	return (p.Kind == pkObj || p.Kind == pkCell || p.Kind == pkArr) && len(p.Path) == 0
}

// pathBase returns the leaf offset of Path within Root and the pointee type.
func (p *PtrInfo) pathBase() (int, types.Type) {
	t := p.Root
	base := 0
	for _, f := range p.Path {
		lo, _ := fieldRange(t, f)
		base += lo
		t = t.Underlying().(*types.Struct).Field(f).Type()
	}
	return base, t
}

type unsupportedErr struct{ msg string }

func (u unsupportedErr) Error() string { return "unsupported: " + u.msg }
func unsupported(msg string) error     { return unsupportedErr{msg} }

func sortedKeys[V any](m map[string]V) []string {
	ks := make([]string, 0, len(m))
	for k := range m {
		ks = append(ks, k)
	}
	sort.Strings(ks)
	return ks
}

// heapKeySort computes the SMT sort of a heap key from its kind prefix and leaf sort.
func heapKeySort(kind string, leafSort string, mapKeySort string) string {
	switch kind {
	case "F", "C", "B":
		return arrSort(sInt, leafSort)
	case "E":
		return arrSort(sInt, arrSort(sInt, leafSort))
	case "G":
		return leafSort
	case "MH":
		return arrSort(sInt, arrSort(mapKeySort, sBool))
	case "MV":
		return arrSort(sInt, arrSort(mapKeySort, leafSort))
	}
	panic("bad heap kind " + kind)
}

func keyKind(key string) string { return key[:strings.Index(key, "|")] }
