package main

import (
	"fmt"
	"go/types"
	"strings"

	"golang.org/x/tools/go/ssa"
)

// Error chains: err.chain(tag, ref, k) is true iff the Unwrap chain of the error
// value (tag, ref) contains an error of dynamic type id k (or pseudo id for sentinels).
const chainDeadline = -1 // errors.Is(err, os.ErrDeadlineExceeded)

func (ex *Exec) declChain() {
	ex.declareFun("err.chain", []string{sInt, sInt, sInt}, sBool)
	ex.declareFun("err.wraps", []string{sInt, sInt, sInt, sInt}, sBool)
	if !ex.chainAxioms {
		ex.chainAxioms = true
		ex.preamble = append(ex.preamble,
			"(assert (forall ((r Int) (k Int)) (! (not (err.chain 0 r k)) :pattern ((err.chain 0 r k)))))",
			"(assert (forall ((r Int) (t Int) (s Int)) (! (not (err.wraps 0 r t s)) :pattern ((err.wraps 0 r t s)))))",
			"(assert (forall ((t Int) (r Int)) (! (=> (not (= t 0)) (err.wraps t r t r)) :pattern ((err.wraps t r t r)))))")
	}
}

func (ex *Exec) chainTerm(err Val, k int) string {
	ex.declChain()
	return app("err.chain", err.L[0], err.L[1], num(int64(k)))
}

func (ex *Exec) wrapsTerm(err, cause Val) string {
	ex.declChain()
	return app("err.wraps", err.L[0], err.L[1], cause.L[0], cause.L[1])
}

// trackedChainIDs lists the type ids whose membership in chains is tracked.
func (ex *Exec) trackedChainIDs() []int {
	ids := []int{chainDeadline}
	for _, t := range ex.w.errTypes {
		ids = append(ids, ex.w.typeID(t))
	}
	for _, t := range extraTrackedErrTypes(ex.w) {
		ids = append(ids, ex.w.typeID(t))
	}
	return ids
}

func extraTrackedErrTypes(w *World) []types.Type {
	var out []types.Type
	if p, ok := w.pkgs["github.com/google/gopacket"]; ok {
		if o := p.Pkg.Scope().Lookup("UnsupportedLayerType"); o != nil {
			out = append(out, o.Type())
		}
	}
	return out
}

// assumeExternalError states A-EXTERR: an error produced outside the module carries no module error type.
func (ex *Exec) assumeExternalError(v Val) {
	if ex.pure > 0 {
		return
	}
	ex.used["A-EXTERR: errors produced by libraries carry no repo error types"] = true
	var cs []string
	for _, t := range ex.w.errTypes {
		id := ex.w.typeID(t)
		cs = append(cs, not(ex.chainTerm(v, id)), not(eq(v.L[0], num(int64(id)))))
	}
	ex.assume(and(cs...))
}

// wrapperErrField returns the index of the wrapped-error field of a repo wrapper error type (*T with Err error + Unwrap).
func wrapperErrField(t types.Type) (int, bool) {
	pt, ok := t.Underlying().(*types.Pointer)
	if !ok {
		return 0, false
	}
	st, ok := pt.Elem().Underlying().(*types.Struct)
	if !ok {
		return 0, false
	}
	ms := types.NewMethodSet(t)
	has := false
	for i := 0; i < ms.Len(); i++ {
		if ms.At(i).Obj().Name() == "Unwrap" {
			has = true
		}
	}
	if !has {
		return 0, false
	}
	for i := 0; i < st.NumFields(); i++ {
		if st.Field(i).Name() == "Err" && isErrorType(st.Field(i).Type()) {
			return i, true
		}
	}
	return 0, false
}

// noteErrorCreated instantiates the chain axioms when a concrete error value becomes an interface.
func (ex *Exec) noteErrorCreated(st *State, iface Val, t types.Type, ref string) {
	if ex.pure > 0 || !implementsError(t) {
		return
	}
	ex.declChain()
	self := ex.w.typeID(t)
	if sentT, ok := ex.sentinels[ref]; ok {
		_ = sentT
		var cs []string
		for _, k := range ex.trackedChainIDs() {
			if k == self {
				cs = append(cs, ex.chainTerm(iface, k))
			} else {
				cs = append(cs, not(ex.chainTerm(iface, k)))
			}
		}
		ex.assume(and(cs...))
		return
	}
	if fi, ok := wrapperErrField(t); ok {
		p := Val{T: t, L: []string{ref}}
		pi := ptrInfoOf(p)
		np := *pi
		np.Path = []int{fi}
		inner := ex.load(st, Val{T: types.NewPointer(types.Universe.Lookup("error").Type()), L: []string{ref}, P: &np})
		var cs []string
		for _, k := range ex.trackedChainIDs() {
			rhs := ex.chainTerm(inner, k)
			if k == self {
				rhs = "true"
			}
			cs = append(cs, eq(ex.chainTerm(iface, k), rhs))
		}
		ex.assume(and(cs...))
		ex.assume("(forall ((ct!w Int) (cr!w Int)) (! (= (err.wraps " + iface.L[0] + " " + iface.L[1] + " ct!w cr!w) (or (and (= ct!w " + iface.L[0] + ") (= cr!w " + iface.L[1] + ")) (err.wraps " + inner.L[0] + " " + inner.L[1] + " ct!w cr!w))) :pattern ((err.wraps " + iface.L[0] + " " + iface.L[1] + " ct!w cr!w))))")
		return
	}
	// plain error value of a tracked type: chain contains exactly itself
	var cs []string
	for _, k := range ex.trackedChainIDs() {
		if k == self {
			cs = append(cs, ex.chainTerm(iface, k))
		} else {
			cs = append(cs, not(ex.chainTerm(iface, k)))
		}
	}
	ex.assume(and(cs...))
}

// newWrappedError models fmt.Errorf / errors.Join results: a fresh non-nil error whose chain is the union of the wrapped ones.
func (ex *Exec) newWrappedError(st *State, wrapped []Val, nonNil string, prefix string) Val {
	return ex.newWrappedError2(st, wrapped, nonNil, prefix, false)
}

// newWrappedError2: with open set, nothing is assumed about the chain (the caller states it).
func (ex *Exec) newWrappedError2(st *State, wrapped []Val, nonNil string, prefix string, open bool) Val {
	ex.declChain()
	tag := num(int64(ex.w.typeIDByName("*fmt.wrapError")))
	ref := ex.alloc(st)
	v := Val{T: types.Universe.Lookup("error").Type(), L: []string{ite(nonNil, tag, "0"), ite(nonNil, ref, "0")}}
	v = ex.nameVal(prefix, v)
	if ex.pure > 0 || open {
		return v
	}
	var cs []string
	for _, k := range ex.trackedChainIDs() {
		var ors []string
		for _, w := range wrapped {
			ors = append(ors, ex.chainTerm(w, k))
		}
		cs = append(cs, imp(nonNil, eq(ex.chainTerm(v, k), or(ors...))))
	}
	ex.assume(and(cs...))
	var ws []string
	for _, w := range wrapped {
		ws = append(ws, "(err.wraps "+w.L[0]+" "+w.L[1]+" ct!w cr!w)")
	}
	ex.assume(imp(nonNil, "(forall ((ct!w Int) (cr!w Int)) (! (= (err.wraps "+v.L[0]+" "+v.L[1]+" ct!w cr!w) "+or(append([]string{"(and (= ct!w "+v.L[0]+") (= cr!w "+v.L[1]+"))"}, ws...)...)+") :pattern ((err.wraps "+v.L[0]+" "+v.L[1]+" ct!w cr!w))))"))
	return v
}

func (w *World) typeIDByName(name string) int {
	if id, ok := w.typeIDs[name]; ok {
		return id
	}
	id := len(w.typeNames)
	w.typeIDs[name] = id
	w.typeNames = append(w.typeNames, name)
	return id
}

// ---------------------------------------------------------------- ghost state

func (ex *Exec) ghostSort(name string) string {
	for _, c := range ex.w.allContracts {
		for _, g := range c.Ghosts {
			if g.Name == name {
				return g.Sort
			}
		}
	}
	switch name {
	case "clock":
		return sInt
	}
	if strings.HasPrefix(name, "calls.") {
		return sInt
	}
	if strings.HasPrefix(name, "ser.") {
		return serGhostSort(name)
	}
	switch name {
	case "wrN", "wrClock":
		return sInt
	case "ioFail", "tcpDialed", "http.doErr", "http.readErr", "http.parsed":
		return sBool
	case "http.status", "http.n":
		return sInt
	case "isOpen", "osOpen":
		return arrSort(sInt, sBool)
	case "ctx.bounded":
		return arrSort(sInt, sBool)
	case "rdSet":
		return arrSort(sInt, sBool)
	case "http.reqctx":
		return arrSort(sInt, sInt)
	case "cache.has":
		return arrSort(sStr, sBool)
	case "dns.ans":
		return arrSort(sStr, arrSort(sInt, sBool))
	case "dns.len":
		return arrSort(sInt, sInt)
	case "dns.n":
		return arrSort(sStr, sInt)
	case "cache.tag", "cache.ref", "cache.exp":
		return arrSort(sStr, sInt)
	case "closeN", "connKind":
		return arrSort(sInt, sInt)
	}
	return ""
}

func (ex *Exec) ghostGet(st *State, name string) (Val, bool) {
	key := "X|" + name
	srt, ok := ex.keySort[key]
	if !ok {
		srt = ex.ghostSort(name)
		if srt == "" {
			return Val{}, false
		}
		ex.registerKey(key, srt)
	}
	t := ex.heapGet(st, key, srt)
	switch srt {
	case sBool:
		return boolVal(t), true
	case sReal:
		return scalar(types.Typ[types.Float64], t), true
	}
	return intVal(t), true
}

func (ex *Exec) ghostSet(st *State, name, term string) {
	key := "X|" + name
	srt, ok := ex.keySort[key]
	if !ok {
		srt = ex.ghostSort(name)
		ex.registerKey(key, srt)
	}
	ex.setH(st, key, ex.name("g", term, srt))
}

// advanceClock lets the ghost clock move forward by an arbitrary non-negative amount.
func (ex *Exec) advanceClock(st *State, reach string) string {
	cur, _ := ex.ghostGet(st, "clock")
	if ex.pure > 0 {
		return cur.L[0]
	}
	n := ex.freshConst("clock", sInt)
	ex.assume(app("<=", cur.L[0], n))
	ex.ghostSet(st, "clock", n)
	return n
}

// ---------------------------------------------------------------- globals

// globalConst returns the value of a global that is immutable after package initialisation.
func (ex *Exec) globalConst(pi *PtrInfo, st *State) (Val, bool) {
	if len(pi.Path) != 0 || pi.Glob == nil {
		return Val{}, false
	}
	g := pi.Glob
	full := g.Pkg.Pkg.Path() + "." + g.Name()
	et := g.Type().Underlying().(*types.Pointer).Elem()
	if c, ok := libGlobalInts[full]; ok {
		ex.used["libspec global: "+full] = true
		return scalar(et, num(c)), true
	}
	gi := ex.w.initStore(g)
	if !gi.immutable {
		return Val{}, false
	}
	ex.used["immutable global (single store in init): "+full] = true
	switch v := gi.val.(type) {
	case *ssa.Const:
		return ex.constVal(v), true
	case *ssa.MakeInterface:
		// an interface holding a value built at init: the dynamic type is known, the payload is stable
		name := "gval!" + sanitize(full) + "!ref"
		ex.declare(name, sInt)
		return Val{T: et, L: []string{num(int64(ex.w.typeID(v.X.Type()))), name}}, true
	case *ssa.Function:
		return Val{T: et, L: []string{"1"}, F: &FuncInfo{Fn: v}}, true
	case *ssa.MakeClosure:
		// a method value / closure built at init: the function is known, its bindings are stable unknown values
		fn, _ := v.Fn.(*ssa.Function)
		if fn == nil {
			break
		}
		var bind []Val
		for bi, b := range v.Bindings {
			ls := leaves(b.Type())
			bv := Val{T: b.Type(), L: make([]string, len(ls))}
			for li, l := range ls {
				name := fmt.Sprintf("gbind!%s!%d!%d", sanitize(full), bi, li)
				ex.declare(name, l.Sort)
				bv.L[li] = name
			}
			ex.preAssume = append(ex.preAssume, rangeFacts(ls, bv.L, "top!0"))
			if _, isPtr := b.Type().Underlying().(*types.Pointer); isPtr {
				ex.preAssume = append(ex.preAssume, not(eq(bv.L[0], "0")))
			}
			bind = append(bind, bv)
		}
		return Val{T: et, L: []string{"1"}, F: &FuncInfo{Fn: fn, Bind: bind}}, true
	case *ssa.Alloc:
		// pointer to a composite literal allocated in init: a sentinel object
		ref := "gref!" + sanitize(full)
		if _, ok := ex.declared[ref]; !ok {
			ex.declare(ref, sInt)
			ex.preAssume = append(ex.preAssume, and(app("<=", "1", ref), app("<=", ref, "top!0")))
			var others []string
			for other := range ex.sentinels {
				others = append(others, other)
			}
			sortStrings(others)
			for _, other := range others {
				ex.preAssume = append(ex.preAssume, not(eq(ref, other)))
			}
			ex.sentinels[ref] = v.Type().Underlying().(*types.Pointer).Elem()
		}
		return Val{T: et, L: []string{ref}}, true
	case *ssa.Slice:
		if _, _, ok := sliceLiteral(v); !ok {
			return ex.literalSliceHeader(v, et, full)
		}
		if vals, elemT, ok := sliceLiteral(v); ok {
			ref := "garr!" + sanitize(full)
			if _, seen := ex.declared[ref]; !seen {
				ex.declare(ref, sInt)
				ex.preAssume = append(ex.preAssume, and(app("<=", "1", ref), app("<=", ref, "top!0")))
			}
			// element facts hold in every state (nobody writes the array)
			for i, ev := range vals {
				var cv Val
				switch c := ev.(type) {
				case *ssa.Const:
					cv = ex.constVal(c)
				case *ssa.UnOp:
					gg, ok := c.X.(*ssa.Global)
					if !ok {
						return ex.literalSliceHeader(v, et, full)
					}
					gv, ok := ex.globalConst(&PtrInfo{Kind: pkGlobal, Glob: gg, Root: gg.Type().Underlying().(*types.Pointer).Elem()}, st)
					if !ok {
						return ex.literalSliceHeader(v, et, full)
					}
					cv = gv
				default:
					return ex.literalSliceHeader(v, et, full)
				}
				got := ex.load(st, elemPtr(elemT, ref, num(int64(i))))
				for j := range got.L {
					ex.assume(eq(got.L[j], cv.L[j]))
				}
			}
			n := num(int64(len(vals)))
			return sliceVal(et, ref, "0", n, n), true
		}
	}
	// unknown but stable value
	ls := leaves(et)
	v := Val{T: et, L: make([]string, len(ls))}
	for i, l := range ls {
		name := fmt.Sprintf("gval!%s!%d", sanitize(full), i)
		ex.declare(name, l.Sort)
		v.L[i] = name
	}
	if call, ok := gi.val.(*ssa.Call); ok {
		if f := call.Call.StaticCallee(); f != nil && f.Pkg != nil && nonNilConstructors[f.Pkg.Pkg.Path()+"."+f.Name()] && len(v.L) == 1 {
			// library constructors that always return an object
			ex.used["libspec: "+f.Pkg.Pkg.Path()+"."+f.Name()+" returns a non-nil object"] = true
			ex.preAssume = append(ex.preAssume, and(app("<=", "1", v.L[0]), app("<=", v.L[0], "top!0")))
		}
	}
	return v, true
}

// sliceLiteral recognises `[]T{c0, c1, ...}` as built by the SSA initialiser:
// a Slice of a freshly allocated array whose elements are stored once each.
func sliceLiteral(s *ssa.Slice) ([]ssa.Value, types.Type, bool) {
	al, ok := s.X.(*ssa.Alloc)
	if !ok || s.Low != nil || s.High != nil {
		return nil, nil, false
	}
	arr, ok := al.Type().Underlying().(*types.Pointer).Elem().Underlying().(*types.Array)
	if !ok {
		return nil, nil, false
	}
	vals := make([]ssa.Value, arr.Len())
	for _, ref := range *al.Referrers() {
		switch r := ref.(type) {
		case *ssa.IndexAddr:
			c, ok := r.Index.(*ssa.Const)
			if !ok {
				return nil, nil, false
			}
			idx := int(c.Int64())
			for _, rr := range *r.Referrers() {
				if stv, ok := rr.(*ssa.Store); ok && stv.Addr == ssa.Value(r) {
					vals[idx] = stv.Val
				}
			}
		case *ssa.Slice, *ssa.DebugRef:
		default:
			return nil, nil, false
		}
	}
	for _, v := range vals {
		if v == nil {
			return nil, nil, false
		}
	}
	return vals, arr.Elem(), true
}

// nonNilConstructors: library constructors whose result is never nil.
var nonNilConstructors = map[string]bool{
	"github.com/patrickmn/go-cache.New": true,
}

// literalSliceHeader: a slice literal built at init (var x = []T{...}): the header is stable and its length is the
// literal's; the elements are left unconstrained.
func (ex *Exec) literalSliceHeader(v *ssa.Slice, et types.Type, full string) (Val, bool) {
	if al, ok := v.X.(*ssa.Alloc); ok && v.Low == nil && v.High == nil && v.Max == nil {
		if at, ok := al.Type().Underlying().(*types.Pointer).Elem().Underlying().(*types.Array); ok {
			if _, isSl := et.Underlying().(*types.Slice); isSl {
				name := "gval!" + sanitize(full) + "!arr"
				if _, seen := ex.declared[name]; !seen {
					ex.declare(name, sInt)
					ex.preAssume = append(ex.preAssume, and(app("<=", "1", name), app("<=", name, "top!0")))
				}
				n := num(at.Len())
				return Val{T: et, L: []string{name, "0", n, n}}, true
			}
		}
	}
	return Val{}, false
}
