package main

import (
	"fmt"
	"path/filepath"
	"go/ast"
	"go/token"
	"go/types"
	"os"
	"sort"
	"strings"

	"golang.org/x/tools/go/packages"
	"golang.org/x/tools/go/ssa"
	"golang.org/x/tools/go/ssa/ssautil"
)

// World is the loaded program plus all contracts.
type World struct {
	prog           *ssa.Program
	fset           *token.FileSet
	ppkgs          []*packages.Package
	pkgs           map[string]*ssa.Package
	module         string
	contracts      map[*ssa.Function]*Contract
	ifaceContracts map[string]*Contract
	allContracts   []*Contract
	race           *raceInfo
	typeIDs        map[string]int
	typeNames      []string
	ldefs          map[*ssa.Function]map[string][]localDef
	rkn            map[*ssa.BasicBlock]string
	fileOf         map[*ssa.Function]*ast.File
	errTypes       []types.Type // tracked error types (repo)
	loadSecs       float64
	renames        map[*Contract][]string // rename-tolerance notes per contract (names.go)
	typeByKey      map[string]types.Type // typeKey → type, for every type that received a dynamic-type id
	rangeKeys      map[string]map[string]nameEntry // outermost function → baseline range-key variables (names.go)
}

type localDef struct {
	val  ssa.Value
	addr bool
}

func loadWorld(dir string, overlay map[string][]byte) (*World, error) {
	cfg := &packages.Config{
		Mode:       packages.LoadAllSyntax,
		Dir:        dir,
		BuildFlags: []string{"-tags=verif"},
		Env:        append(cleanEnv(), "GOFLAGS=-mod=mod", "GOPROXY=off"),
		Overlay:    overlay,
	}
	pkgs, err := packages.Load(cfg, "./...")
	if err != nil {
		return nil, err
	}
	var errs []string
	packages.Visit(pkgs, nil, func(p *packages.Package) {
		for _, e := range p.Errors {
			errs = append(errs, e.Error())
		}
	})
	if len(errs) > 0 {
		return nil, fmt.Errorf("package errors:\n%s", strings.Join(errs, "\n"))
	}
	prog, _ := ssautil.AllPackages(pkgs, ssa.InstantiateGenerics|ssa.GlobalDebug)
	prog.Build()
	w := &World{prog: prog, ppkgs: pkgs, pkgs: map[string]*ssa.Package{}, contracts: map[*ssa.Function]*Contract{}, ifaceContracts: map[string]*Contract{},
		typeIDs: map[string]int{}, ldefs: map[*ssa.Function]map[string][]localDef{}, rkn: map[*ssa.BasicBlock]string{}}
	if len(pkgs) > 0 {
		w.fset = pkgs[0].Fset
		if pkgs[0].Module != nil {
			w.module = pkgs[0].Module.Path
		}
		if w.module == "" {
			if b, err := os.ReadFile(dir + "/go.mod"); err == nil {
				for _, l := range strings.Split(string(b), "\n") {
					if strings.HasPrefix(l, "module ") {
						w.module = strings.TrimSpace(strings.TrimPrefix(l, "module "))
					}
				}
			}
		}
	}
	for _, p := range prog.AllPackages() {
		w.pkgs[p.Pkg.Path()] = p
	}
	w.typeNames = append(w.typeNames, "<nil>")
	// tracked error types: named types of the module with an Error method
	for _, p := range pkgs {
		sc := p.Types.Scope()
		names := sc.Names()
		sort.Strings(names)
		for _, n := range names {
			tn, ok := sc.Lookup(n).(*types.TypeName)
			if !ok {
				continue
			}
			if !strings.HasPrefix(p.PkgPath, w.module) {
				continue
			}
			if implementsError(tn.Type()) {
				w.errTypes = append(w.errTypes, tn.Type())
				w.typeID(tn.Type())
			} else if pt := types.NewPointer(tn.Type()); implementsError(pt) {
				w.errTypes = append(w.errTypes, pt)
				w.typeID(pt)
			}
		}
	}
	if err := w.parseContracts(pkgs); err != nil {
		return nil, err
	}
	if err := w.parseLibSpecs("/verif/libspec"); err != nil {
		return nil, err
	}
	w.applyRenames()
	w.instantiateGenericContracts()
	w.linkIfaceRefinement()
	return w, nil
}

func implementsError(t types.Type) bool {
	ms := types.NewMethodSet(t)
	for i := 0; i < ms.Len(); i++ {
		if ms.At(i).Obj().Name() == "Error" {
			if sig, ok := ms.At(i).Type().(*types.Signature); ok && sig.Params().Len() == 0 && sig.Results().Len() == 1 {
				return true
			}
		}
	}
	return false
}

// cleanEnv drops the variables that break `go list` under the repo's pinned toolchain.
func cleanEnv() []string {
	var out []string
	for _, e := range os.Environ() {
		if strings.HasPrefix(e, "GOTOOLCHAIN=") || strings.HasPrefix(e, "GOSUMDB=") || strings.HasPrefix(e, "GOFLAGS=") || strings.HasPrefix(e, "GOPROXY=") {
			continue
		}
		out = append(out, e)
	}
	return out
}

func (w *World) typeID(t types.Type) int {
	k := typeKey(t)
	if id, ok := w.typeIDs[k]; ok {
		return id
	}
	id := len(w.typeNames)
	w.typeIDs[k] = id
	w.typeNames = append(w.typeNames, k)
	if w.typeByKey == nil {
		w.typeByKey = map[string]types.Type{}
	}
	w.typeByKey[k] = t
	return id
}

// localDefs maps source-level local variable names to their defining SSA values (from DebugRefs).
func (w *World) localDefs(fn *ssa.Function) map[string][]localDef {
	if m, ok := w.ldefs[fn]; ok {
		return m
	}
	m := map[string][]localDef{}
	seen := map[string]map[ssa.Value]bool{}
	for _, b := range fn.Blocks {
		for _, ins := range b.Instrs {
			d, ok := ins.(*ssa.DebugRef)
			if !ok {
				continue
			}
			id, ok := d.Expr.(*ast.Ident)
			if !ok {
				continue
			}
			name := id.Name
			if seen[name] == nil {
				seen[name] = map[ssa.Value]bool{}
			}
			if seen[name][d.X] {
				continue
			}
			seen[name][d.X] = true
			m[name] = append(m[name], localDef{val: d.X, addr: d.IsAddr})
		}
	}
	w.ldefs[fn] = m
	return m
}

// rangeKeyName returns the name of the key variable of the range loop whose header is h.
func (w *World) rangeKeyName(fn *ssa.Function, h *ssa.BasicBlock) string {
	if n, ok := w.rkn[h]; ok {
		return n
	}
	name := ""
	// the loop body contains the DebugRef of the key ident defined as phi+1 (t5) — find it
	var inc ssa.Value
	for _, ins := range h.Instrs {
		if bo, ok := ins.(*ssa.BinOp); ok && bo.Op == token.ADD {
			if phi, ok := bo.X.(*ssa.Phi); ok && phi.Comment == "rangeindex" {
				inc = bo
				break
			}
		}
	}
	if inc != nil {
		best := token.NoPos
		for _, b := range fn.Blocks {
			for _, ins := range b.Instrs {
				if d, ok := ins.(*ssa.DebugRef); ok && d.X == inc {
					if id, ok := d.Expr.(*ast.Ident); ok && (best == token.NoPos || id.Pos() < best) {
						name = id.Name
						best = id.Pos()
					}
				}
			}
		}
	}
	w.rkn[h] = name
	return name
}

// globalInit describes a package-level variable whose only store is in init.
type globalInit struct {
	immutable bool
	val       ssa.Value // value stored by init
}

var globalInitCache = map[*ssa.Global]*globalInit{}

// initStore finds the single store to g, if all stores are in the package initialiser
// and the address of g never escapes.
func (w *World) initStore(g *ssa.Global) *globalInit {
	if gi, ok := globalInitCache[g]; ok {
		return gi
	}
	gi := &globalInit{}
	globalInitCache[g] = gi
	var stores []*ssa.Store
	ok := true
	for _, p := range w.prog.AllPackages() {
		for _, m := range p.Members {
			fn, isFn := m.(*ssa.Function)
			if !isFn {
				continue
			}
			w.scanGlobalUses(fn, g, &stores, &ok)
		}
	}
	// methods and anonymous functions
	for fn := range ssautil.AllFunctions(w.prog) {
		if fn.Pkg != nil && fn.Parent() == nil && fn.Signature.Recv() == nil {
			continue
		}
		w.scanGlobalUses(fn, g, &stores, &ok)
	}
	if ok && len(stores) == 1 && stores[0].Parent().Name() == "init" {
		gi.immutable = true
		gi.val = stores[0].Val
	}
	return gi
}

func (w *World) scanGlobalUses(fn *ssa.Function, g *ssa.Global, stores *[]*ssa.Store, ok *bool) {
	for _, b := range fn.Blocks {
		for _, ins := range b.Instrs {
			for _, op := range ins.Operands(nil) {
				if *op != ssa.Value(g) {
					continue
				}
				switch x := ins.(type) {
				case *ssa.Store:
					if x.Addr == ssa.Value(g) {
						*stores = append(*stores, x)
					} else {
						*ok = false
					}
				case *ssa.UnOp:
					// load
				case *ssa.DebugRef:
				default:
					*ok = false // address taken / passed along
				}
			}
		}
	}
	for _, a := range fn.AnonFuncs {
		w.scanGlobalUses(a, g, stores, ok)
	}
}

// parseLibSpecs reads loop invariants / contracts for dependency functions that are executed from their source.
// Each file starts with "//@ package <import path>".
func (w *World) parseLibSpecs(dir string) error {
	files, _ := filepath.Glob(filepath.Join(dir, "*.spec"))
	sort.Strings(files)
	for _, f := range files {
		b, err := os.ReadFile(f)
		if err != nil {
			return err
		}
		var sp *ssa.Package
		var lines, poss []string
		for n, l := range strings.Split(string(b), "\n") {
			l = strings.TrimSpace(l)
			if !strings.HasPrefix(l, "//@") {
				continue
			}
			l = strings.TrimPrefix(l, "//@")
			if t := strings.TrimSpace(l); strings.HasPrefix(t, "package ") {
				sp = w.pkgs[strings.TrimSpace(strings.TrimPrefix(t, "package "))]
				if sp == nil {
					return fmt.Errorf("%s: package %s is not part of the program", f, t)
				}
				continue
			}
			lines = append(lines, l)
			poss = append(poss, fmt.Sprintf("%s:%d", strings.TrimPrefix(f, "/verif/"), n+1))
		}
		if sp == nil {
			return fmt.Errorf("%s: missing //@ package directive", f)
		}
		if err := w.parseContractLines(sp, lines, poss); err != nil {
			return fmt.Errorf("%s: %w", f, err)
		}
	}
	return nil
}

// closureStoredIn: if variable `name` of fn's parent is assigned exactly once with a closure, return that closure's function.
func (w *World) closureStoredIn(fn *ssa.Function, name string) *ssa.Function {
	for p := fn.Parent(); p != nil; p = p.Parent() {
		for _, b := range p.Blocks {
			for _, ins := range b.Instrs {
				a, ok := ins.(*ssa.Alloc)
				if !ok || a.Comment != name {
					continue
				}
				var val ssa.Value
				n := 0
				for _, ref := range *a.Referrers() {
					if st, ok := ref.(*ssa.Store); ok && st.Addr == ssa.Value(a) {
						n++
						val = st.Val
					}
				}
				if n == 1 {
					if mc, ok := val.(*ssa.MakeClosure); ok {
						return mc.Fn.(*ssa.Function)
					}
				}
			}
		}
	}
	return nil
}

// instantiateGenericContracts: a contract on a generic function is verified on (and used at calls of) every
// instantiation that occurs in the program; the type parameters in its clauses denote the instance's type arguments.
func (w *World) instantiateGenericContracts() {
	var add []*Contract
	for _, c := range w.allContracts {
		if c.Fn == nil || c.Fn.TypeParams().Len() == 0 || len(c.Fn.TypeArgs()) > 0 {
			continue
		}
		var insts []*ssa.Function
		for fn := range ssautil.AllFunctions(w.prog) {
			if fn.Origin() == c.Fn && len(fn.TypeArgs()) > 0 {
				concrete := true
				for _, ta := range fn.TypeArgs() {
					if _, isTP := ta.(*types.TypeParam); isTP {
						concrete = false
					}
				}
				if concrete {
					insts = append(insts, fn)
				}
			}
		}
		sort.Slice(insts, func(i, j int) bool { return insts[i].Name() < insts[j].Name() })
		for _, fn := range insts {
			cc := *c
			cc.Fn = fn
			cc.Name = fn.Name()
			w.contracts[fn] = &cc
			add = append(add, &cc)
		}
		if len(insts) > 0 {
			c.Verify = false // the instances are the units
		}
	}
	w.allContracts = append(w.allContracts, add...)
}
