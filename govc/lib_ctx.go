package main

import (
	"go/types"
)

// context.Context: a context is identified by its reference. Cancellation is monotone: ghost ctx.done[ref]
// can only go from false to true, and Err() is non-nil exactly when it is true at the time of the call.
// Derived contexts are done whenever their parent is (ghost ctx.parent).

func (ex *Exec) ctxDone(st *State) string {
	ex.registerKey("X|ctx.done", arrSort(sInt, sBool))
	return ex.heapGet(st, "X|ctx.done", arrSort(sInt, sBool))
}

func (ex *Exec) ctxParent(st *State) string {
	ex.registerKey("X|ctx.parent", arrSort(sInt, sInt))
	return ex.heapGet(st, "X|ctx.parent", arrSort(sInt, sInt))
}

// ctxAdvance lets any context become done (time passes / someone cancels), monotonically.
func (ex *Exec) ctxAdvance(st *State) {
	if ex.pure > 0 {
		return
	}
	old := ex.ctxDone(st)
	nd := ex.freshConst("ctxdone", arrSort(sInt, sBool))
	par := ex.ctxParent(st)
	ex.assume("(forall ((c!c Int)) (! (=> (select " + old + " c!c) (select " + nd + " c!c)) :pattern ((select " + nd + " c!c))))")
	ex.assume("(forall ((c!c Int)) (! (=> (select " + nd + " (select " + par + " c!c)) (select " + nd + " c!c)) :pattern ((select " + nd + " c!c))))")
	ex.setH(st, "X|ctx.done", nd)
}

// ctxBounded: ghost ctx.bounded[ref] — the context carries a finite deadline (its own or an ancestor's). C08: every
// blocking library call must be given such a context (or an explicit timeout / read deadline).
func (ex *Exec) ctxBounded(st *State) string {
	ex.registerKey("X|ctx.bounded", arrSort(sInt, sBool))
	return ex.heapGet(st, "X|ctx.bounded", arrSort(sInt, sBool))
}

// blockingBound raises the C08 obligation that a blocking call is bounded.
func (c *callCtx) blockingBound(what, cond string) {
	ex := c.ex
	if ex.pure > 0 || c.fr == nil || c.reach == nil || c.instr == nil {
		return
	}
	ex.oblige(c.fr.label("C08.bounded."+sanitize(what)), "assert", []string{"C08"}, imp(c.r(), cond), ex.posOf(c.instr.Pos()), "blocking call "+what+" has no finite bound (context without deadline / no timeout / no read deadline)")
}

func (ex *Exec) newCtx(st *State, parent Val, tagName string) Val {
	ref := ex.alloc(st)
	tag := num(int64(ex.w.typeIDByName(tagName)))
	par := ex.ctxParent(st)
	ex.setH(st, "X|ctx.parent", ex.name("ctxpar", sto(par, ref, parent.L[1]), arrSort(sInt, sInt)))
	done := ex.ctxDone(st)
	// a fresh child is done iff its parent already is (it may become done at any later point)
	ex.setH(st, "X|ctx.done", ex.name("ctxdone", sto(done, ref, sel(done, parent.L[1])), arrSort(sInt, sBool)))
	// timer contexts have a deadline; the others inherit their parent's
	bd := ex.ctxBounded(st)
	b := sel(bd, parent.L[1])
	if tagName == "*context.timerCtx" {
		b = "true"
	}
	ex.setH(st, "X|ctx.bounded", ex.name("ctxbounded", sto(bd, ref, b), arrSort(sInt, sBool)))
	return Val{L: []string{tag, ref}}
}

func init() {
	ctxT := func(ex *Exec) types.Type { return ex.w.pkgs["context"].Pkg.Scope().Lookup("Context").Type() }
	cancelT := func(ex *Exec) types.Type { return ex.w.pkgs["context"].Pkg.Scope().Lookup("CancelFunc").Type() }
	derive := func(name string) libFn {
		return func(c *callCtx) Val {
			ex := c.ex
			child := ex.newCtx(c.st, c.args[0], "*context."+name)
			if c.fn != nil && c.fn.Name() == "WithTimeout" && len(c.args) >= 2 && ex.pure == 0 {
				// remember the duration a timeout context was created with (ctxTimeout(ctx) in specifications)
				ex.registerKey("X|ctx.timeout", arrSort(sInt, sInt))
				h := ex.heapGet(c.st, "X|ctx.timeout", arrSort(sInt, sInt))
				ex.setH(c.st, "X|ctx.timeout", ex.name("ctxto", sto(h, child.L[1], c.args[1].L[0]), arrSort(sInt, sInt)))
			}
			cancel := Val{T: cancelT(ex), L: []string{ex.alloc(c.st)}, F: &FuncInfo{Abstract: "cancel"}}
			// remember which context a cancel function cancels
			ex.registerKey("X|ctx.cancels", arrSort(sInt, sInt))
			h := ex.heapGet(c.st, "X|ctx.cancels", arrSort(sInt, sInt))
			ex.setH(c.st, "X|ctx.cancels", ex.name("cancels", sto(h, cancel.L[0], child.L[1]), arrSort(sInt, sInt)))
			_ = ctxT
			return Val{L: []string{child.L[0], child.L[1], cancel.L[0]}}
		}
	}
	reg("context.WithTimeout", derive("timerCtx"))
	reg("context.WithDeadline", derive("timerCtx"))
	reg("context.WithCancel", derive("cancelCtx"))
	reg("context.Background", func(c *callCtx) Val {
		ex := c.ex
		tag := num(int64(ex.w.typeIDByName("context.backgroundCtx")))
		ref := "ctx!background"
		if _, ok := ex.declared[ref]; !ok {
			ex.declare(ref, sInt)
			ex.preAssume = append(ex.preAssume, and(app("<=", "1", ref), app("<=", ref, "top!0")))
		}
		if ex.pure == 0 {
			ex.assume(not(sel(ex.ctxDone(c.st), ref)))
			ex.assume(not(sel(ex.ctxBounded(c.st), ref)))
		}
		return Val{L: []string{tag, ref}}
	})
	libHandlers["context.TODO"] = libHandlers["context.Background"]
	reg("context.Context.Err", func(c *callCtx) Val {
		ex := c.ex
		self := c.args[0]
		ex.ctxAdvance(c.st)
		done := sel(ex.ctxDone(c.st), self.L[1])
		return ex.newWrappedError(c.st, nil, ex.name("ctxerr", done, sBool), "ctxerr")
	})
	reg("context.Context.Done", func(c *callCtx) Val {
		return Val{L: []string{c.ex.alloc(c.st)}}
	})
	reg("context.Context.Deadline", func(c *callCtx) Val {
		ex := c.ex
		t := ex.freshVal(ex.w.pkgs["time"].Pkg.Scope().Lookup("Time").Type(), c.st, "deadline")
		ok := ex.name("hasdeadline", sel(ex.ctxBounded(c.st), c.args[0].L[1]), sBool)
		return Val{L: []string{t.L[0], ok}}
	})
}
