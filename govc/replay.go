package main

// replayModel tries to reproduce a solver counterexample on the real code.
// (generic replay generation is filled in by replaygen.go)
func replayModel(w *World, r *UnitResult, ob *Obligation) map[string]interface{} {
	return replayGeneric(w, r, ob)
}
