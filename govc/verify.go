package main

import (
	"fmt"
	"go/types"
	"os"
	"path/filepath"
	"runtime/debug"
	"sort"
	"strings"
	"sync"
	"sync/atomic"
	"time"

	"golang.org/x/tools/go/ssa"
)

type UnitResult struct {
	Unit       *Unit
	Ex         *Exec
	Refused    string // non-empty: the generator could not handle the function
	Obls       []*Obligation
	Vacuity    string // "ok", "unknown", or failure text
	Secs       float64
	Instrs     int
	LoopsAnnot int
	DeadReturns []int // return sites (in execution order) that are unreachable under the assumptions
	DeadBack    []string // loop back edges that are unreachable under the assumptions (the loop body's obligations would be vacuous)
}

type Options struct {
	Thorough  bool
	TimeoutMs int
	KeepDir   string
	Seed      int
	ChunkSize int
}

var longAttempts int32

func countInstrs(fn *ssa.Function) int {
	n := 0
	for _, b := range fn.Blocks {
		n += len(b.Instrs)
	}
	return n
}

// buildVC runs the symbolic execution of a unit (discovery pass, then the real pass).
func buildVC(w *World, u *Unit) (ex *Exec, refused string) {
	defer func() {
		if r := recover(); r != nil {
			if ue, ok := r.(unsupportedErr); ok {
				refused = ue.Error()
				if os.Getenv("GOVC_DEBUG") != "" {
					refused += "\n" + string(debug.Stack())
				}
				return
			}
			if e, ok := r.(error); ok {
				if ue, ok2 := e.(unsupportedErr); ok2 {
					refused = ue.Error()
					return
				}
			}
			refused = fmt.Sprintf("internal error: %v\n%s", r, debug.Stack())
		}
	}()
	var discKeys map[string]string
	run := func(discover bool, mods map[string]map[string]bool, all map[string]bool) *Exec {
		ex := newExec(w, u)
		ex.discover = discover
		// heap keys met by the discovery pass are known from the start of the real pass (a loop must be able to
		// havoc a key that is first used inside its body)
		for k, s := range discKeys {
			ex.keySort[k] = s
		}
		if mods != nil {
			ex.loopMods = mods
			ex.loopAll = all
		}
		ex.declare("top!0", sInt)
		ex.preAssume = append(ex.preAssume, app("<=", "0", "top!0"))
		st := &State{H: map[string]string{}, Base: ex.baseInit, Top: "top!0"}
		ex.registerKey("X|clock", sInt)
		ex.preAssume = append(ex.preAssume, app("<=", "9223372036854775808", ex.heapGet(st, "X|clock", sInt)))
		fn := u.Fn
		var args, bind []Val
		for _, p := range fn.Params {
			v := ex.freshValPre(p.Type(), "p_"+p.Name())
			args = append(args, v)
		}
		ex.entryArgs = args
		for _, fv := range fn.FreeVars {
			v := ex.freshValPre(fv.Type(), "fv_"+fv.Name())
			bind = append(bind, v)
			ex.preAssume = append(ex.preAssume, not(eq(v.L[0], "0")))
		}
		// auxiliary variables local to this function start with their declared initial value
		for _, g := range u.C.Ghosts {
			if g.Init != "" {
				ex.registerKey("X|"+g.Name, g.Sort)
				ex.preAssume = append(ex.preAssume, eq(ex.heapGet(st, "X|"+g.Name, g.Sort), g.Init))
			}
		}
		// preconditions
		fr0 := &frame{ex: ex, fn: fn, args: args, bind: bind, c: u.C, entry: st, loops: computeLoops(fn)}
		for _, cl := range u.C.Requires {
			ex.assume(fr0.evalClause(cl, nil, st, nil))
		}
		ex.entryIndex = len(ex.items)
		ex.execFunc(fn, args, bind, st, "true", 0, true, "", nil)
		return ex
	}
	d := run(true, nil, nil)
	discKeys = d.keySort
	ex = run(false, d.loopMods, d.loopAll)
	return ex, ""
}

// freshValPre creates a symbolic pre-state value (type invariants go to the preamble assumptions).
func (ex *Exec) freshValPre(t types.Type, prefix string) Val {
	ls := leaves(t)
	v := Val{T: t, L: make([]string, len(ls))}
	for i, l := range ls {
		n := sanitize(prefix)
		if l.Name != "" {
			n += "." + sanitize(l.Name)
		}
		if _, dup := ex.declared[n]; dup {
			n = ex.fresh(n)
		}
		ex.declare(n, l.Sort)
		v.L[i] = n
	}
	ex.preAssume = append(ex.preAssume, rangeFacts(ls, v.L, "top!0"))
	if _, ok := t.Underlying().(*types.Signature); ok {
		v.F = &FuncInfo{Abstract: strings.TrimPrefix(strings.TrimPrefix(prefix, "p_"), "fv_")}
	}
	return v
}

func verifyUnit(w *World, u *Unit, opt Options) *UnitResult {
	t0 := time.Now()
	res := &UnitResult{Unit: u, Instrs: countInstrs(u.Fn), LoopsAnnot: len(u.C.Loops)}
	ex, refused := buildVC(w, u)
	res.Ex = ex
	if refused != "" {
		res.Refused = refused
		res.Secs = time.Since(t0).Seconds()
		return res
	}
	res.Obls = ex.obls
	if len(u.C.IfaceEnsures) > 0 && len(u.C.Requires) > 0 {
		var ls []string
		for _, cl := range u.C.Requires {
			ls = append(ls, cl.Label)
		}
		ex.used["ASSUMED at interface dispatch: the preconditions of "+u.Name+" ("+strings.Join(ls, ", ")+") hold whenever it is reached through "+u.C.IfaceEnsures[0].From.Name+" — they are representation invariants set up by the constructor of the implementing type; dispatch sites are checked against the interface contract only"] = true
	}
	// chunked batch proving, falling back to single obligations
	chunk := opt.ChunkSize
	if chunk <= 0 {
		chunk = 1
	}
	if opt.Thorough {
		chunk = 1
	}
	var wg sync.WaitGroup
	work := make(chan *Obligation)
	for k := 0; k < 6; k++ {
		wg.Add(1)
		go func() {
			defer wg.Done()
			for ob := range work {
				q := ex.queryFor(ob)
				ob.QueryBytes = len(q)
				ob.Result = solve(q, fmt.Sprintf("%s.o%d", sanitize(u.Name), ob.Index), opt.TimeoutMs, opt.Thorough, true)
				if ob.Result.Status == "timeout" || ob.Result.Status == "unknown" {
					// slow queries are the unstable ones: one more attempt with a longer limit before giving up
					r2 := solve(q, fmt.Sprintf("%s.r%d", sanitize(u.Name), ob.Index), 3*opt.TimeoutMs, opt.Thorough, true)
					if r2.Status == "unsat" || r2.Status == "sat" {
						r2.Retried = true
						ob.Result = r2
					} else if atomic.AddInt32(&longAttempts, 1) <= 3 {
						// a loaded machine stretches solver times several-fold: one last, long attempt before the
						// obligation is reported (at most four per run, so a tree that breaks many obligations stays fast)
						r3 := solve(q, fmt.Sprintf("%s.s%d", sanitize(u.Name), ob.Index), 6*opt.TimeoutMs, opt.Thorough, true)
						if r3.Status == "unsat" || r3.Status == "sat" {
							r3.Retried = true
							ob.Result = r3
						}
					}
				}
				if ob.Result.Status != "unsat" && ob.Result.Status != "sat" && ob.Result.Status != "unsat-single" {
					// no verdict: look for a candidate counterexample in a weakened query
					mr := solve(modelQuery(q), fmt.Sprintf("%s.m%d", sanitize(u.Name), ob.Index), opt.TimeoutMs, false, true)
					if mr.Status == "sat" {
						ob.Result.Model = mr.Model
						ob.Result.Candidate = true
						ob.Result.Output += "\ncandidate model from the weakened query (" + mr.Solver + "):\n" + mr.Output
					}
				}
			}
		}()
	}
	go func() {
		for _, ob := range ex.obls {
			if !ob.ExpectSat {
				work <- ob
			}
		}
		close(work)
	}()
	_ = chunk
	// vacuity: some return site must be reachable under the assumptions
	vac := make(chan string, 1)
	go func() {
		if len(ex.returnReach) == 0 {
			vac <- "no return site was reached by the symbolic execution"
			return
		}
		q := ex.header() + ex.prefix(len(ex.items)) + "(assert " + or(ex.returnReach...) + ")\n"
		r := solveCover(q, sanitize(u.Name)+".vac", 3000)
		if r.Status != "sat" && r.Status != "unsat" && opt.Thorough {
			// thorough tier — no model found quickly (quantified assumptions): give the solvers the time an obligation gets to find a
			// contradiction among the assumptions, which is what a vacuous unit would be
			r = solveCover(q, sanitize(u.Name)+".vac2", 8000)
		}
		switch r.Status {
		case "sat":
			vac <- "ok"
		case "unsat":
			vac <- "VACUOUS: no return site is reachable under the preconditions and assumed contracts"
		default:
			vac <- "unknown"
		}
	}()
	// every return site should be reachable: an unreachable one usually means contradictory assumptions on that path
	var dmu sync.Mutex
	var dwg sync.WaitGroup
	for i, rr := range ex.returnReach {
		i, rr := i, rr
		dwg.Add(1)
		go func() {
			defer dwg.Done()
			q := ex.header() + ex.prefix(len(ex.items)) + "(assert " + rr + ")\n"
			r := solveCover(q, fmt.Sprintf("%s.dead%d", sanitize(u.Name), i), 3000)
			if r.Status == "unsat" {
				dmu.Lock()
				res.DeadReturns = append(res.DeadReturns, i+1)
				dmu.Unlock()
			}
		}()
	}
	for i, br := range ex.backReach {
		i, br := i, br
		dwg.Add(1)
		go func() {
			defer dwg.Done()
			q := ex.header() + ex.prefix(len(ex.items)) + "(assert " + br + ")\n"
			r := solveCover(q, fmt.Sprintf("%s.back%d", sanitize(u.Name), i), 3000)
			if r.Status == "unsat" {
				dmu.Lock()
				res.DeadBack = append(res.DeadBack, ex.backPos[i])
				dmu.Unlock()
			}
		}()
	}
	dwg.Wait()
	wg.Wait()
	res.Vacuity = <-vac
	res.Secs = time.Since(t0).Seconds()
	return res
}

func (ob *Obligation) ok() bool {
	return ob.Result != nil && (ob.Result.Status == "unsat")
}

// keepQuery stores the failing query for inspection / replay files.
func keepQuery(dir string, ex *Exec, ob *Obligation) string {
	os.MkdirAll(dir, 0o755)
	f := filepath.Join(dir, sanitize(ob.Name)+".smt2")
	os.WriteFile(f, []byte("(set-option :produce-models true)\n"+ex.queryFor(ob)+"(check-sat)\n(get-model)\n"), 0o644)
	return f
}

func collectUnits(w *World) []*Unit {
	var us []*Unit
	for _, c := range w.allContracts {
		if c.Fn == nil || c.Trusted || !c.Verify {
			continue
		}
		name := unitName(c)
		us = append(us, &Unit{Name: name, Fn: c.Fn, C: c, SafetyProps: c.Safety})
	}
	sort.Slice(us, func(i, j int) bool { return us[i].Name < us[j].Name })
	return us
}

func unitName(c *Contract) string {
	p := c.Pkg.Pkg.Path()
	p = p[strings.LastIndex(p, "/")+1:]
	return p + "." + c.Name
}
