package main

// github.com/patrickmn/go-cache (ASSUMED library model, A-CACHE): a map from string keys to (value, expiry).
// Get(k) finds the value stored by the most recent Set(k, ...) unless it has expired (expiry > 0 and now > expiry);
// Set(k, x, d) stores x with expiry now+d (d > 0), no expiry (d == NoExpiration == -1) or the default 5 minutes (d == 0).
// The janitor goroutine only deletes expired items, which Get never returns anyway. The cache is internally locked
// (sync.RWMutex): each Get/Set is atomic, which is all the callers rely on.
// Ghost state: cache.has, cache.tag, cache.ref (the stored interface value), cache.exp.

func (ex *Exec) cacheArrays(st *State) (has, tag, ref, exp string) {
	ex.registerKey("X|cache.has", arrSort(sStr, sBool))
	ex.registerKey("X|cache.tag", arrSort(sStr, sInt))
	ex.registerKey("X|cache.ref", arrSort(sStr, sInt))
	ex.registerKey("X|cache.exp", arrSort(sStr, sInt))
	return ex.heapGet(st, "X|cache.has", arrSort(sStr, sBool)), ex.heapGet(st, "X|cache.tag", arrSort(sStr, sInt)),
		ex.heapGet(st, "X|cache.ref", arrSort(sStr, sInt)), ex.heapGet(st, "X|cache.exp", arrSort(sStr, sInt))
}

// cacheLive: the entry for key k is present and not expired at the current ghost time.
func (ex *Exec) cacheLive(st *State, k string) string {
	has, _, _, exp := ex.cacheArrays(st)
	now, _ := ex.ghostGet(st, "clock")
	return and(sel(has, k), or(eq(sel(exp, k), "0"), app("<=", now.L[0], sel(exp, k))))
}

func init() {
	get := func(c *callCtx) Val {
		ex := c.ex
		ex.used["ASSUMED libspec: go-cache Get/Set (A-CACHE)"] = true
		k := c.args[1].L[0]
		_, tag, ref, _ := ex.cacheArrays(c.st)
		live := ex.name("cachehit", ex.cacheLive(c.st, k), sBool)
		return Val{L: []string{ite(live, sel(tag, k), "0"), ite(live, sel(ref, k), "0"), live}}
	}
	set := func(c *callCtx) Val {
		ex := c.ex
		ex.used["ASSUMED libspec: go-cache Get/Set (A-CACHE)"] = true
		if ex.pure > 0 {
			return Val{}
		}
		k, x, d := c.args[1].L[0], c.args[2], c.args[3].L[0]
		has, tag, ref, exp := ex.cacheArrays(c.st)
		now, _ := ex.ghostGet(c.st, "clock")
		r := c.r()
		e := ite(app(">", d, "0"), app("+", now.L[0], d), ite(eq(d, "0"), app("+", now.L[0], "300000000000"), "0"))
		ex.setH(c.st, "X|cache.has", ex.name("chas", ite(r, sto(has, k, "true"), has), arrSort(sStr, sBool)))
		ex.setH(c.st, "X|cache.tag", ex.name("ctag", ite(r, sto(tag, k, x.L[0]), tag), arrSort(sStr, sInt)))
		ex.setH(c.st, "X|cache.ref", ex.name("cref", ite(r, sto(ref, k, x.L[1]), ref), arrSort(sStr, sInt)))
		ex.setH(c.st, "X|cache.exp", ex.name("cexp", ite(r, sto(exp, k, e), exp), arrSort(sStr, sInt)))
		return Val{}
	}
	reg("(*github.com/patrickmn/go-cache.cache).Get", get)
	reg("(*github.com/patrickmn/go-cache.cache).Set", set)
	reg("(github.com/patrickmn/go-cache.Cache).Get", get)
	reg("(github.com/patrickmn/go-cache.Cache).Set", set)
	reg("(*github.com/patrickmn/go-cache.Cache).Get", get)
	reg("(*github.com/patrickmn/go-cache.Cache).Set", set)
}
