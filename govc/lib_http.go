package main

import "go/types"

// net/http, io, backoff (ASSUMED library models, C18 public-IP discovery). What a provider does is unconstrained:
// Do fails or yields a response with any status; reading the body fails or yields any bytes; the bytes parse as an
// address or not. Ghost variables record what happened in the most recent exchange so that contracts can speak about it:
// http.doErr, http.readErr (Bool), http.status (Int), http.parsed (Bool: net.ParseIP accepted the trimmed body).

func (ex *Exec) setBoolGhost(st *State, name, term, reach string) {
	key := "X|" + name
	ex.registerKey(key, sBool)
	prev := ex.heapGet(st, key, sBool)
	ex.setH(st, key, ex.name("g", ite(reach, term, prev), sBool))
}

func (ex *Exec) setIntGhost(st *State, name, term, reach string) {
	key := "X|" + name
	ex.registerKey(key, sInt)
	prev := ex.heapGet(st, key, sInt)
	ex.setH(st, key, ex.name("g", ite(reach, term, prev), sInt))
}

func init() {
	reg("(*net/http.Client).Do", func(c *callCtx) Val {
		ex := c.ex
		ex.used["ASSUMED libspec: (*http.Client).Do returns an error or a response with a non-nil Body and any status"] = true
		// bounded: the request carries a context with a deadline, or the client has an overall timeout
		ex.registerKey("X|http.reqctx", arrSort(sInt, sInt))
		rc := sel(ex.heapGet(c.st, "X|http.reqctx", arrSort(sInt, sInt)), c.args[1].L[0])
		bounded := sel(ex.ctxBounded(c.st), rc)
		if to, okf := ex.fieldOf(c.st, c.args[0], "Timeout"); okf {
			bounded = or(bounded, app(">", to.L[0], "0"))
		}
		c.blockingBound("http.Client.Do", bounded)
		ok := ex.freshConst("httpok", sBool)
		respT := c.cc.Signature().Results().At(0).Type()
		ref := ex.alloc(c.st)
		status := ex.freshConst("httpstatus", sInt)
		if ex.pure == 0 {
			p := Val{T: respT, L: []string{ref}}
			if sc, okf := ex.fieldOf(c.st, p, "StatusCode"); okf {
				ex.assume(eq(sc.L[0], status))
			}
			if body, okf := ex.fieldOf(c.st, p, "Body"); okf {
				ex.assume(not(eq(body.L[0], "0")))
			}
			ex.setBoolGhost(c.st, "http.doErr", not(ok), c.r())
			ex.setIntGhost(c.st, "http.status", status, c.r())
			ex.registerKey("X|http.n", sInt)
			ex.setIntGhost(c.st, "http.n", app("+", ex.heapGet(c.st, "X|http.n", sInt), "1"), c.r())
			ex.advanceClock(c.st, c.r())
		}
		e := ex.freshVal(errorT(), c.st, "httperr")
		ex.assumeExternalError(e)
		ex.assume(eq(not(ok), not(eq(e.L[0], "0"))))
		return Val{L: []string{ite(ok, ref, "0"), e.L[0], e.L[1]}}
	})
	reg("io.ReadAll", func(c *callCtx) Val {
		ex := c.ex
		ok := ex.freshConst("readok", sBool)
		b := ex.freshVal(types.NewSlice(types.Typ[types.Byte]), c.st, "body")
		e := ex.freshVal(errorT(), c.st, "readerr")
		ex.assumeExternalError(e)
		ex.assume(eq(not(ok), not(eq(e.L[0], "0"))))
		if ex.pure == 0 {
			ex.setBoolGhost(c.st, "http.readErr", not(ok), c.r())
			ex.advanceClock(c.st, c.r())
		}
		return Val{L: append(append([]string{}, b.L...), e.L...)}
	})
	closer := func(c *callCtx) Val {
		e := c.ex.freshVal(errorT(), c.st, "closeerr")
		c.ex.assumeExternalError(e)
		return e
	}
	reg("io.ReadCloser.Close", closer)
	reg("io.Closer.Close", closer)
	reg("net.ParseIP", func(c *callCtx) Val {
		ex := c.ex
		ok := ex.freshConst("parsed", sBool)
		arr := ex.alloc(c.st)
		if ex.pure == 0 {
			ex.setBoolGhost(c.st, "http.parsed", ok, c.r())
		}
		return sliceVal(c.cc.Signature().Results().At(0).Type(), ite(ok, arr, "0"), "0", ite(ok, "16", "0"), ite(ok, "16", "0"))
	})
	reg("github.com/cenkalti/backoff/v5.Permanent", func(c *callCtx) Val {
		// wraps err (nil stays nil) in a *PermanentError: Retry stops at such an error
		ex := c.ex
		inner := c.args[0]
		pe := ex.w.pkgs["github.com/cenkalti/backoff/v5"].Pkg.Scope().Lookup("PermanentError").Type()
		tag := num(int64(ex.w.typeID(types.NewPointer(pe))))
		ref := ex.alloc(c.st)
		nn := not(eq(inner.L[0], "0"))
		return Val{L: []string{ite(nn, tag, "0"), ite(nn, ref, "0")}}
	})
	pureLib["strings.TrimSpace"] = true
	// requests: NewRequest uses context.Background(), NewRequestWithContext the given context
	newReq := func(withCtx bool) libFn {
		return func(c *callCtx) Val {
			ex := c.ex
			ok := ex.freshConst("reqok", sBool)
			ref := ex.alloc(c.st)
			ex.registerKey("X|http.reqctx", arrSort(sInt, sInt))
			h := ex.heapGet(c.st, "X|http.reqctx", arrSort(sInt, sInt))
			cref := "0"
			if withCtx {
				cref = c.args[0].L[1]
			} else {
				bg := libHandlers["context.Background"](c)
				cref = bg.L[1]
			}
			if ex.pure == 0 {
				ex.setH(c.st, "X|http.reqctx", ex.name("reqctx", sto(h, ref, cref), arrSort(sInt, sInt)))
			}
			e := ex.newWrappedError(c.st, nil, not(ok), "reqerr")
			return Val{L: []string{ite(ok, ref, "0"), e.L[0], e.L[1]}}
		}
	}
	reg("net/http.NewRequest", newReq(false))
	reg("net/http.NewRequestWithContext", newReq(true))
	pureLib["github.com/cenkalti/backoff/v5.WithBackOff"] = true
	// backoff.Retry(ctx, operation, opts...): runs operation at least once, again after a retryable failure while ctx
	// allows; the attempts are synchronous (ctx is only consulted between attempts). Modelled: one symbolic attempt
	// (so that the operation's own obligations are checked in the caller's context), then an arbitrary outcome that
	// is a value or an error.
	reg("github.com/cenkalti/backoff/v5.Retry", func(c *callCtx) Val {
		ex := c.ex
		ex.used["ASSUMED libspec: backoff.Retry runs the operation synchronously at least once; result is a value or an error"] = true
		op := c.args[1]
		if op.F != nil && op.F.Fn != nil && c.fr != nil {
			ex.callFn(c.fr, op.F.Fn, nil, op.F.Bind, c.st, c.reach, c.instr, nil)
		}
		rt := c.res.At(0).Type()
		v := ex.freshVal(rt, c.st, "retry")
		e := ex.freshVal(errorT(), c.st, "retryerr")
		ex.assumeExternalError(e)
		return Val{L: append(append([]string{}, v.L...), e.L...)}
	})
}
