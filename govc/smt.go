package main

import (
	"fmt"
	"math/big"
	"strings"
)

// SMT terms are plain s-expression strings. Sorts are strings too.

const (
	sInt  = "Int"
	sBool = "Bool"
	sReal = "Real"
	sStr  = "Str"
)

func app(op string, args ...string) string {
	if len(args) == 0 {
		return op
	}
	return "(" + op + " " + strings.Join(args, " ") + ")"
}

func and(args ...string) string {
	var out []string
	for _, a := range args {
		if a == "true" {
			continue
		}
		if a == "false" {
			return "false"
		}
		out = append(out, a)
	}
	switch len(out) {
	case 0:
		return "true"
	case 1:
		return out[0]
	}
	return app("and", out...)
}

func or(args ...string) string {
	var out []string
	for _, a := range args {
		if a == "false" {
			continue
		}
		if a == "true" {
			return "true"
		}
		out = append(out, a)
	}
	switch len(out) {
	case 0:
		return "false"
	case 1:
		return out[0]
	}
	return app("or", out...)
}

func not(a string) string {
	switch a {
	case "true":
		return "false"
	case "false":
		return "true"
	}
	if strings.HasPrefix(a, "(not ") && strings.HasSuffix(a, ")") && balanced(a[5:len(a)-1]) {
		return a[5 : len(a)-1]
	}
	return app("not", a)
}

func balanced(s string) bool {
	d := 0
	for i, c := range s {
		if c == '(' {
			d++
		} else if c == ')' {
			d--
			if d < 0 {
				return false
			}
			if d == 0 && i != len(s)-1 {
				return false
			}
		} else if d == 0 && (c == ' ') {
			return false
		}
	}
	return d == 0
}

func imp(a, b string) string {
	if a == "true" {
		return b
	}
	if a == "false" || b == "true" {
		return "true"
	}
	return app("=>", a, b)
}

func eq(a, b string) string {
	if a == b {
		return "true"
	}
	return app("=", a, b)
}

func ite(c, a, b string) string {
	if c == "true" || a == b {
		return a
	}
	if c == "false" {
		return b
	}
	return app("ite", c, a, b)
}

func num(i int64) string {
	if i < 0 {
		return fmt.Sprintf("(- %d)", -i)
	}
	return fmt.Sprintf("%d", i)
}

func bigNum(b *big.Int) string {
	if b.Sign() < 0 {
		return "(- " + new(big.Int).Neg(b).String() + ")"
	}
	return b.String()
}

func pow2(n uint) string {
	return new(big.Int).Lsh(big.NewInt(1), n).String()
}

func sel(a string, idx ...string) string {
	for _, i := range idx {
		a = app("select", a, i)
	}
	return a
}

func sto(a, i, v string) string { return app("store", a, i, v) }

// store into a 2-dim array a[i][j] = v
func sto2(a, i, j, v string) string {
	return app("store", a, i, app("store", app("select", a, i), j, v))
}

func arrSort(idx, elem string) string { return "(Array " + idx + " " + elem + ")" }

func sanitize(s string) string {
	var b strings.Builder
	for _, c := range s {
		switch {
		case c >= 'a' && c <= 'z', c >= 'A' && c <= 'Z', c >= '0' && c <= '9', c == '_', c == '.':
			b.WriteRune(c)
		default:
			b.WriteByte('_')
		}
	}
	return b.String()
}

// realLit renders a float constant exactly as a rational.
func realLit(r *big.Rat) string {
	neg := r.Sign() < 0
	a := new(big.Rat).Abs(r)
	var s string
	if a.IsInt() {
		s = a.Num().String() + ".0"
	} else {
		s = "(/ " + a.Num().String() + ".0 " + a.Denom().String() + ".0)"
	}
	if neg {
		return "(- " + s + ")"
	}
	return s
}

// at is the element index "offset + i".
func at(off, i string) string {
	if off == "0" {
		return i
	}
	if i == "0" {
		return off
	}
	return app("+", off, i)
}

// addc adds a small constant to a term, folding constants.
func addc(t string, c int64) string {
	if c == 0 {
		return t
	}
	if b, ok := isConstTerm(t); ok {
		return bigNum(new(big.Int).Add(b, big.NewInt(c)))
	}
	return app("+", t, num(c))
}

const atAxiom = ""

// sub subtracts two terms, folding constants.
func sub(a, b string) string {
	if b == "0" {
		return a
	}
	if x, ok := isConstTerm(a); ok {
		if y, ok := isConstTerm(b); ok {
			return bigNum(new(big.Int).Sub(x, y))
		}
	}
	return app("-", a, b)
}
