package main

import "go/types"

// Reverse DNS (C18). The resolver is outside the repository: (*net.Resolver).LookupAddr returns either an error or a
// fresh slice of names. Ghost state records every successful answer: dns.ans[query][array] (the slice whose backing
// array is `array` was returned for the text `query`), dns.len[array] its length, dns.n[query] the number of lookups
// sent for that text. net.IP.String() is a function of the byte content only, modelled as net.iptext(string(ip)).

func (ex *Exec) dnsArrays(st *State) (ans, ln, n string) {
	ex.registerKey("X|dns.ans", arrSort(sStr, arrSort(sInt, sBool)))
	ex.registerKey("X|dns.len", arrSort(sInt, sInt))
	ex.registerKey("X|dns.n", arrSort(sStr, sInt))
	return ex.heapGet(st, "X|dns.ans", arrSort(sStr, arrSort(sInt, sBool))), ex.heapGet(st, "X|dns.len", arrSort(sInt, sInt)), ex.heapGet(st, "X|dns.n", arrSort(sStr, sInt))
}

// dnsAnswered: slice v is exactly a slice the resolver returned for query q.
func (ex *Exec) dnsAnswered(st *State, q string, v Val) string {
	ans, ln, _ := ex.dnsArrays(st)
	return and(not(eq(v.L[0], "0")), sel(sel(ans, q), v.L[0]), eq(v.L[1], "0"), eq(v.L[2], sel(ln, v.L[0])))
}

func init() {
	reg("(*net.Resolver).LookupAddr", func(c *callCtx) Val {
		ex := c.ex
		ex.used["ASSUMED libspec: (*net.Resolver).LookupAddr returns an error or a fresh slice of names (recorded in ghost dns.ans)"] = true
		q := c.args[2].L[0]
		c.blockingBound("net.Resolver.LookupAddr", sel(ex.ctxBounded(c.st), c.args[1].L[1]))
		ok := ex.freshConst("dnsok", sBool)
		namesT := types.NewSlice(types.Typ[types.String])
		arr := ex.alloc(c.st)
		n := ex.freshConst("dnslen", sInt)
		ex.assume(app("<=", "0", n))
		e := ex.freshVal(errorT(), c.st, "dnserr")
		ex.assumeExternalError(e)
		ex.assume(eq(not(ok), not(eq(e.L[0], "0"))))
		if ex.pure == 0 {
			ans, ln, cnt := ex.dnsArrays(c.st)
			r := c.r()
			ex.setH(c.st, "X|dns.ans", ex.name("dnsans", ite(and(r, ok), sto(ans, q, sto(sel(ans, q), arr, "true")), ans), arrSort(sStr, arrSort(sInt, sBool))))
			ex.setH(c.st, "X|dns.len", ex.name("dnslen", ite(and(r, ok), sto(ln, arr, n), ln), arrSort(sInt, sInt)))
			ex.setH(c.st, "X|dns.n", ex.name("dnsn", ite(r, sto(cnt, q, app("+", sel(cnt, q), "1")), cnt), arrSort(sStr, sInt)))
			ex.advanceClock(c.st, r)
		}
		names := sliceVal(namesT, ite(ok, arr, "0"), "0", ite(ok, n, "0"), ite(ok, n, "0"))
		return Val{L: append(append([]string{}, names.L...), e.L...)}
	})
	reg("(net.IP).String", func(c *callCtx) Val {
		ex := c.ex
		ex.declareFun("net.iptext", []string{sStr}, sStr)
		return Val{T: types.Typ[types.String], L: []string{app("net.iptext", ex.bytesToStr(c.st, c.args[0]))}}
	})
}
