package main

import (
	"fmt"
	"go/types"
	"sort"
	"strings"

	"golang.org/x/tools/go/ssa"
)

// ---------------------------------------------------------------------------------------------
// C14: lock discipline for state shared between the goroutines of a parallel run.
//
// Part 1 (drivers). The parallel engine calls SendProbe from its sender goroutine and ReceiveProbe from its receiver
// goroutine on the same driver object. For every driver type (a type with both methods whose GetDriverInfo reports
// SupportsParallel) the fields are classified over the SSA of everything reachable from the two methods:
//   a field is *contended* when one role writes it (the field itself, or the elements of the slice / entries of the map it
//   holds) and the other role reads or writes it.
// sync.Mutex / sync/atomic fields are exempt. For each contended field, every access in a role function raises the
// obligation held(<the driver's mutex>) in the state of the symbolic execution (deferred unlocks included), discharged by
// the solvers like any other obligation. A driver without a mutex field cannot discharge it.
//
// Part 2 (monitors). In a closure spawned by a function that declares `monitor MU protects X`, every access to X (the
// variable when it is reassigned, otherwise its elements / entries / fields) raises held(MU); so does an access by the
// spawner itself between a spawn and the join.
//
// Limits (stated): objects reached through pointer fields are not followed (parser, buffer: confined to one role by
// the classification of the pointer field only); sufficiency not necessity — code synchronising by other means (channels)
// would fail the discipline without being racy.
// ---------------------------------------------------------------------------------------------

type guardInfo struct {
	typ     *types.Named
	field   int
	name    string
	muField int // -1: the type has no mutex
}

type raceInfo struct {
	guards  map[string]*guardInfo   // typeKey(T)+"."+field → info (contended fields)
	roleFns map[*ssa.Function]bool  // functions reachable from SendProbe/ReceiveProbe of a parallel driver
	report  []string
}

func (w *World) raceAnalysis() *raceInfo {
	if w.race != nil {
		return w.race
	}
	ri := &raceInfo{guards: map[string]*guardInfo{}, roleFns: map[*ssa.Function]bool{}}
	w.race = ri
	for _, p := range w.prog.AllPackages() {
		if !strings.HasPrefix(p.Pkg.Path(), w.module) {
			continue
		}
		for _, m := range p.Members {
			tn, ok := m.(*ssa.Type)
			if !ok {
				continue
			}
			named, ok := tn.Type().(*types.Named)
			if !ok {
				continue
			}
			st, ok := named.Underlying().(*types.Struct)
			if !ok {
				continue
			}
			pt := types.NewPointer(named)
			ms := types.NewMethodSet(pt)
			look := func(name string) *ssa.Function {
				sel := ms.Lookup(p.Pkg, name)
				if sel == nil {
					return nil
				}
				return w.prog.MethodValue(sel)
			}
			send, recv, info := look("SendProbe"), look("ReceiveProbe"), look("GetDriverInfo")
			if send == nil || recv == nil || info == nil || !supportsParallel(info) {
				continue
			}
			sendSet := w.reachable(send)
			recvSet := w.reachable(recv)
			for f := range sendSet {
				ri.roleFns[f] = true
			}
			for f := range recvSet {
				ri.roleFns[f] = true
			}
			mu := -1
			for i := 0; i < st.NumFields(); i++ {
				if isNamed(st.Field(i).Type(), "sync", "Mutex") || isNamed(st.Field(i).Type(), "sync", "RWMutex") {
					mu = i
				}
			}
			sr, sw := fieldAccesses(sendSet, named)
			rr, rw := fieldAccesses(recvSet, named)
			for i := 0; i < st.NumFields(); i++ {
				ft := st.Field(i).Type()
				if isNamed(ft, "sync", "Mutex") || isNamed(ft, "sync", "RWMutex") || isAtomicType(ft) {
					continue
				}
				cont := (sw[i] && (rr[i] || rw[i])) || (rw[i] && (sr[i] || sw[i]))
				cls := "role-confined or read-only in both roles"
				if cont {
					cls = "CONTENDED: must be accessed with the mutex held"
					ri.guards[typeKey(named)+"."+st.Field(i).Name()] = &guardInfo{typ: named, field: i, name: st.Field(i).Name(), muField: mu}
				}
				ri.report = append(ri.report, fmt.Sprintf("%s.%s: sender r=%v w=%v, receiver r=%v w=%v: %s", named.Obj().Name(), st.Field(i).Name(), sr[i], sw[i], rr[i], rw[i], cls))
			}
		}
	}
	sort.Strings(ri.report)
	return ri
}

func isAtomicType(t types.Type) bool {
	n, ok := types.Unalias(t).(*types.Named)
	return ok && n.Obj().Pkg() != nil && n.Obj().Pkg().Path() == "sync/atomic"
}

// supportsParallel: GetDriverInfo returns a literal with SupportsParallel: true.
func supportsParallel(fn *ssa.Function) bool {
	for _, b := range fn.Blocks {
		for _, ins := range b.Instrs {
			if st, ok := ins.(*ssa.Store); ok {
				if c, ok := st.Val.(*ssa.Const); ok && c.Value != nil && c.Value.String() == "true" {
					return true
				}
			}
			if r, ok := ins.(*ssa.Return); ok {
				for _, v := range r.Results {
					if c, ok := v.(*ssa.Const); ok && c.Value != nil && strings.Contains(c.Value.String(), "true") {
						return true
					}
				}
			}
		}
	}
	return false
}

// reachable: functions of the module reachable through static calls (closures created inside included).
func (w *World) reachable(root *ssa.Function) map[*ssa.Function]bool {
	seen := map[*ssa.Function]bool{}
	var visit func(f *ssa.Function)
	visit = func(f *ssa.Function) {
		if f == nil || seen[f] || len(f.Blocks) == 0 {
			return
		}
		pkg := f.Pkg
		if pkg == nil && f.Parent() != nil {
			pkg = f.Parent().Pkg
		}
		if pkg == nil || !strings.HasPrefix(pkg.Pkg.Path(), w.module) {
			return
		}
		seen[f] = true
		for _, b := range f.Blocks {
			for _, ins := range b.Instrs {
				switch x := ins.(type) {
				case ssa.CallInstruction:
					visit(x.Common().StaticCallee())
				case *ssa.MakeClosure:
					if cf, ok := x.Fn.(*ssa.Function); ok {
						visit(cf)
					}
				}
			}
		}
	}
	visit(root)
	return seen
}

// fieldAccesses classifies, per field index of struct type named, whether the functions read / write it
// (the field itself or the elements of the collection it holds).
func fieldAccesses(fns map[*ssa.Function]bool, named *types.Named) (reads, writes map[int]bool) {
	reads, writes = map[int]bool{}, map[int]bool{}
	for f := range fns {
		for _, b := range f.Blocks {
			for _, ins := range b.Instrs {
				fa, ok := ins.(*ssa.FieldAddr)
				if !ok {
					continue
				}
				pt, ok := fa.X.Type().Underlying().(*types.Pointer)
				if !ok || !types.Identical(pt.Elem(), named) {
					continue
				}
				r, w := classifyUses(fa, 0)
				if r {
					reads[fa.Field] = true
				}
				if w {
					writes[fa.Field] = true
				}
			}
		}
	}
	return
}

// classifyUses: how is the address v (of a field, or of something inside it) used?
func classifyUses(v ssa.Value, depth int) (read, write bool) {
	if depth > 4 || v.Referrers() == nil {
		return true, true
	}
	for _, ref := range *v.Referrers() {
		switch u := ref.(type) {
		case *ssa.Store:
			if u.Addr == v {
				write = true
			} else {
				write = true // the address escapes into memory
			}
		case *ssa.UnOp:
			read = true
			// the loaded value: a slice / map header whose contents may be accessed
			r2, w2 := classifyLoaded(u, depth+1)
			read = read || r2
			write = write || w2
		case *ssa.FieldAddr, *ssa.IndexAddr:
			r2, w2 := classifyUses(u.(ssa.Value), depth+1)
			read = read || r2
			write = write || w2
		case *ssa.DebugRef:
		case ssa.CallInstruction:
			// &s.f passed to a call (pointer receiver / argument): mutexes and atomics are filtered by the caller
			read, write = true, true
		default:
			read, write = true, true
		}
	}
	return
}

func classifyLoaded(v ssa.Value, depth int) (read, write bool) {
	if v.Referrers() == nil {
		return
	}
	switch v.Type().Underlying().(type) {
	case *types.Slice, *types.Map:
	default:
		return // scalars and pointers: contents of pointed-to objects are not followed
	}
	for _, ref := range *v.Referrers() {
		switch u := ref.(type) {
		case *ssa.IndexAddr:
			r2, w2 := classifyUses(u, depth+1)
			read = read || r2
			write = write || w2
		case *ssa.MapUpdate:
			if u.Map == v {
				write = true
			}
		case *ssa.Lookup:
			read = true
		case *ssa.Range:
			read = true
		}
	}
	return
}

// guardObligation: executing a FieldAddr of a contended field inside a role function.
func (fr *frame) guardObligation(x *ssa.FieldAddr, p Val, st *State, reach string) {
	ex := fr.ex
	if ex.pure > 0 || ex.discover {
		return
	}
	pt, ok := x.X.Type().Underlying().(*types.Pointer)
	if !ok {
		return
	}
	named, ok := types.Unalias(pt.Elem()).(*types.Named)
	if !ok {
		return
	}
	sT, ok := named.Underlying().(*types.Struct)
	if !ok {
		return
	}
	ri := ex.w.raceAnalysis()
	g := ri.guards[typeKey(named)+"."+sT.Field(x.Field).Name()]
	if g == nil || !ri.roleFns[fr.fn] {
		return
	}
	goal := "false"
	what := fmt.Sprintf("%s.%s is written by one of the sender/receiver goroutines and accessed by the other: it must be accessed with the driver's mutex held", named.Obj().Name(), g.name)
	if g.muField >= 0 {
		pi := ptrInfoOf(p)
		np := *pi
		np.Path = append(append([]int{}, pi.Path...), g.muField)
		held := ex.load(st, Val{T: types.NewPointer(sT.Field(g.muField).Type()), L: p.L, P: &np})
		goal = held.L[0]
	} else {
		what += " (the type has no mutex)"
	}
	ex.oblige(fr.label("C14.guard."+named.Obj().Name()+"."+g.name), "assert", []string{"C14"}, imp(reach, goal), ex.posOf(x.Pos()), what)
}

// monitorAccess: an access to a monitor-protected variable in a goroutine body (or in the spawner while goroutines run).
func (fr *frame) monitorAccess(ins ssa.Instruction, root ssa.Value, st *State, reach string) {
	ex := fr.ex
	if ex.pure > 0 || ex.discover {
		return
	}
	name := ""
	switch r := root.(type) {
	case *ssa.FreeVar:
		name = r.Name()
	case *ssa.Alloc:
		if len(fr.spawned) == 0 {
			return // no goroutine is running: the spawner owns its locals
		}
		name = r.Comment
	default:
		return
	}
	for _, m := range ex.monitorsFor(fr.fn) {
		for _, pn := range m.Protects {
			if pn != name {
				continue
			}
			cl, err := parseClause("invariant[C14.locked."+name+"] held("+m.Mutex+")", "")
			if err != nil {
				return
			}
			g := fr.evalClause(cl, fr.curBlk, st, nil)
			ex.oblige(fr.label("C14.locked."+name), "assert", []string{"C14"}, imp(reach, g), ex.posOf(ins.Pos()), "access to "+name+" (protected by "+m.Mutex+") without holding the lock while other goroutines run")
		}
	}
}

// monitorAccessAt: instruction ins accesses memory through addr (an address, or a loaded slice/map header).
func (fr *frame) monitorAccessAt(ins ssa.Instruction, addr ssa.Value, st *State, reach string) {
	if fr.ex.pure > 0 || fr.ex.discover || len(fr.ex.monitorsFor(fr.fn)) == 0 {
		return
	}
	root, deep := accessRoot(addr)
	if !deep {
		// the variable's own cell: racy only if someone reassigns the variable
		var al *ssa.Alloc
		var owner *ssa.Function
		switch r := root.(type) {
		case *ssa.Alloc:
			al, owner = r, fr.fn
		case *ssa.FreeVar:
			for p := fr.fn.Parent(); p != nil && al == nil; p = p.Parent() {
				for _, b := range p.Blocks {
					for _, i2 := range b.Instrs {
						if a, ok := i2.(*ssa.Alloc); ok && a.Comment == r.Name() {
							al, owner = a, p
						}
					}
				}
			}
		}
		if al == nil || fr.ex.w.assignedOnce(owner, al) {
			return
		}
	}
	fr.monitorAccess(ins, root, st, reach)
}

// accessRoot walks an address back through field/index addressing and loaded slice/map headers to the variable it
// belongs to; deref reports whether the access goes beyond the variable's own cell.
func accessRoot(a ssa.Value) (root ssa.Value, deep bool) {
	for i := 0; i < 8; i++ {
		switch x := a.(type) {
		case *ssa.FieldAddr:
			a, deep = x.X, true
		case *ssa.IndexAddr:
			a, deep = x.X, true
		case *ssa.UnOp:
			a, deep = x.X, true
		default:
			return a, deep
		}
	}
	return a, deep
}
