package main

import (
	"fmt"
	"os"
	"go/ast"
	"go/constant"
	"go/token"
	"go/types"
	"math/big"
	"strconv"
	"strings"

	"golang.org/x/tools/go/ssa"
)

// cenv is the evaluation environment of a specification expression.
type cenv struct {
	ex   *Exec
	pkg  *ssa.Package
	fr   *frame // frame whose locals are visible (may be nil)
	blk  *ssa.BasicBlock
	vars map[string]Val
	st   *State
	old  *State
	nq   *int
	genericFn *ssa.Function // instance whose type arguments the clause's type parameters denote (call-site evaluation)
	bound map[string]bool // names bound by an enclosing quantifier (they shadow program variables of the same name)
}

var untypedInt = types.Typ[types.UntypedInt]
var untypedNil = types.Typ[types.UntypedNil]

func (ce *cenv) with(name string, v Val) *cenv {
	n := *ce
	n.vars = map[string]Val{}
	for k, x := range ce.vars {
		n.vars[k] = x
	}
	n.vars[name] = v
	n.bound = map[string]bool{}
	for k := range ce.bound {
		n.bound[k] = true
	}
	n.bound[name] = true
	return &n
}

func (ce *cenv) fail(e ast.Node, msg string) {
	panic(unsupported(fmt.Sprintf("clause: %s (at %s)", msg, types.ExprString(e.(ast.Expr)))))
}

// evalClause evaluates a clause to an SMT Bool term in the context of the frame.
func (fr *frame) evalClause(cl *Clause, blk *ssa.BasicBlock, st *State, extra map[string]Val) string {
	ex := fr.ex
	pkg := fr.fn.Pkg
	if pkg == nil && fr.fn.Parent() != nil {
		pkg = fr.fn.Parent().Pkg
	}
	if fr.c != nil && fr.c.Pkg != nil {
		pkg = fr.c.Pkg
	}
	vars := map[string]Val{}
	for i, p := range fr.fn.Params {
		vars[p.Name()] = fr.args[i]
	}
	for k, v := range extra {
		vars[k] = v
	}
	n := 0
	ce := &cenv{ex: ex, pkg: pkg, fr: fr, blk: blk, vars: vars, st: st, old: fr.entry, nq: &n}
	ex.pure++
	defer func() { ex.pure-- }()
	res := ex.pureScope(func() string {
		v := ce.eval(cl.Expr)
		if len(v.L) != 1 {
			panic(unsupported("clause is not boolean: " + cl.Text))
		}
		return v.L[0]
	})
	if os.Getenv("GOVC_DEBUG") != "" {
		fmt.Fprintf(os.Stderr, "clause %s: %d bytes\n", cl.Label, len(res))
	}
	return res
}

// evalClauseVal evaluates an integer-valued expression clause (ghost update amounts).
func (fr *frame) evalClauseVal(cl *Clause, blk *ssa.BasicBlock, st *State) string {
	ex := fr.ex
	pkg := fr.fn.Pkg
	if pkg == nil && fr.fn.Parent() != nil {
		pkg = fr.fn.Parent().Pkg
	}
	if fr.c != nil && fr.c.Pkg != nil {
		pkg = fr.c.Pkg
	}
	vars := map[string]Val{}
	for i, p := range fr.fn.Params {
		vars[p.Name()] = fr.args[i]
	}
	n := 0
	ce := &cenv{ex: ex, pkg: pkg, fr: fr, blk: blk, vars: vars, st: st, old: fr.entry, nq: &n}
	return ex.pureScope(func() string {
		v := ce.eval(cl.Expr)
		if len(v.L) != 1 {
			panic(unsupported("ghost update amount is not a scalar: " + cl.Text))
		}
		return v.L[0]
	})
}

// evalCallClause evaluates a callee's clause at a call site.
func (ex *Exec) evalCallClause(c *Contract, cl *Clause, vars map[string]Val, st, old *State) string {
	n := 0
	ce := &cenv{ex: ex, pkg: c.Pkg, vars: vars, st: st, old: old, nq: &n, genericFn: c.Fn}
	if ex.callerFrame != nil {
		ce.fr = ex.callerFrame
		ce.blk = ex.callerFrame.curBlk
	}
	ex.pure++
	defer func() { ex.pure-- }()
	return ex.pureScope(func() string {
		v := ce.eval(cl.Expr)
		if len(v.L) != 1 {
			panic(unsupported("clause is not boolean: " + cl.Text))
		}
		return v.L[0]
	})
}

func (ce *cenv) lookupIdent(id *ast.Ident) (Val, bool) {
	name := id.Name
	switch name {
	case "nil":
		return Val{T: untypedNil, L: []string{"0"}}, true
	case "true":
		return boolVal("true"), true
	case "false":
		return boolVal("false"), true
	}
	if ce.bound[name] {
		return ce.vars[name], true
	}
	if ce.fr != nil && ce.blk != nil {
		// inside a loop invariant a reassigned parameter denotes its current (loop-carried) value
		if v, ok := ce.fr.lookupPhi(name, ce.blk); ok {
			return v, true
		}
	}
	if v, ok := ce.vars[name]; ok {
		return v, true
	}
	if ce.fr != nil {
		if v, ok := ce.fr.lookupLocal(name, ce.blk, ce.st); ok {
			return v, true
		}
	}
	// ghost state
	if v, ok := ce.ex.ghostGet(ce.st, name); ok {
		return v, true
	}
	// the key variable of a range loop that the code no longer names (names.go)
	if ce.fr != nil && ce.fr.loops != nil {
		if n := ce.ex.w.droppedRangeKey(ce.fr.fn, name); n >= 1 && n <= len(ce.fr.loops.headers) {
			for _, ins := range ce.fr.loops.headers[n-1].Instrs {
				phi, ok := ins.(*ssa.Phi)
				if !ok {
					break
				}
				if phi.Comment == "rangeindex" {
					if v, ok := ce.fr.vals[phi]; ok {
						ce.ex.used["dropped range key tolerated: contract identifier "+name+" denotes the index of range loop "+strconv.Itoa(n)+" of "+ce.fr.fn.Name()] = true
						return scalar(types.Typ[types.Int], app("+", v.L[0], "1")), true
					}
				}
			}
		}
	}
	// package scope
	if ce.pkg != nil {
		if obj := ce.pkg.Pkg.Scope().Lookup(name); obj != nil {
			return ce.objVal(ce.pkg, obj, id)
		}
	}
	return Val{}, false
}

func (ce *cenv) objVal(pkg *ssa.Package, obj types.Object, at ast.Expr) (Val, bool) {
	switch o := obj.(type) {
	case *types.Const:
		return ce.ex.constVal(ssa.NewConst(o.Val(), o.Type())), true
	case *types.Var:
		g, ok := pkg.Members[o.Name()].(*ssa.Global)
		if !ok {
			return Val{}, false
		}
		p := Val{T: g.Type(), L: []string{"1"}, P: &PtrInfo{Kind: pkGlobal, Root: o.Type(), Glob: g}}
		if gv, ok := ce.ex.globalConst(p.P, ce.st); ok {
			return gv, true
		}
		return ce.ex.load(ce.st, p), true
	case *types.Func:
		fn := pkg.Func(o.Name())
		if fn == nil {
			return Val{}, false
		}
		return Val{T: o.Type(), L: []string{"1"}, F: &FuncInfo{Fn: fn}}, true
	}
	return Val{}, false
}

// lookupPhi resolves a name to the loop-carried value (header phi) of an enclosing loop.
func (fr *frame) lookupPhi(name string, blk *ssa.BasicBlock) (Val, bool) {
	hs := fr.loops.loopsOf(blk)
	for i := len(hs) - 1; i >= 0; i-- {
		for _, ins := range hs[i].Instrs {
			phi, ok := ins.(*ssa.Phi)
			if !ok {
				break
			}
			if phi.Comment == name {
				if v, ok := fr.vals[phi]; ok {
					return v, true
				}
			}
		}
	}
	return Val{}, false
}

// lookupLocal resolves a source-level local variable name at a program point.
func (fr *frame) lookupLocal(name string, blk *ssa.BasicBlock, st *State) (Val, bool) {
	// free variables (captured by reference): deref
	for i, fv := range fr.fn.FreeVars {
		if fv.Name() == name {
			p := fr.bind[i]
			if _, ok := p.T.Underlying().(*types.Pointer); ok {
				v := fr.ex.load(st, p)
				if f, ok := fr.ex.cellFuncs[cellKey(p)]; ok {
					v.F = f
				}
				return v, true
			}
			return p, true
		}
	}
	if blk != nil {
		// phis of enclosing loop headers (innermost first) and range keys
		hs := fr.loops.loopsOf(blk)
		for i := len(hs) - 1; i >= 0; i-- {
			h := hs[i]
			for _, ins := range h.Instrs {
				phi, ok := ins.(*ssa.Phi)
				if !ok {
					break
				}
				if phi.Comment == name {
					if v, ok := fr.vals[phi]; ok {
						return v, true
					}
				}
				if phi.Comment == "rangeindex" {
					if kn := fr.ex.w.rangeKeyName(fr.fn, h); kn == name || name == "range_i" {
						if v, ok := fr.vals[phi]; ok {
							return scalar(types.Typ[types.Int], app("+", v.L[0], "1")), true
						}
					}
				}
			}
		}
	}
	// single-definition locals via debug refs
	// a variable that was loop-carried in an earlier (already finished) loop: its value is that loop's header phi
	if blk != nil {
		var best *ssa.Phi
		for _, h := range fr.loops.headers {
			if fr.loops.body[h][blk] || !h.Dominates(blk) {
				continue
			}
			for _, ins := range h.Instrs {
				phi, ok := ins.(*ssa.Phi)
				if !ok {
					break
				}
				if phi.Comment == name {
					if _, have := fr.vals[phi]; have && (best == nil || phi.Block().Index > best.Block().Index) {
						best = phi
					}
				}
			}
		}
		if best != nil {
			return fr.vals[best], true
		}
	}
	// an address-taken variable: its cell is the Alloc carrying the variable's name
	for _, b := range fr.fn.Blocks {
		for _, ins := range b.Instrs {
			if a, ok := ins.(*ssa.Alloc); ok && a.Comment == name {
				if pv, have := fr.vals[a]; have {
					v := fr.ex.load(st, pv)
					if f, ok := fr.ex.cellFuncs[cellKey(pv)]; ok {
						v.F = f
					}
					return v, true
				}
			}
		}
	}
	vs := fr.ex.w.localDefs(fr.fn)[name]
	if len(vs) > 1 {
		// an address-taken variable has one address definition: prefer it (its current content is loaded)
		var addrs []localDef
		for _, d := range vs {
			if d.addr {
				addrs = append(addrs, d)
			}
		}
		if len(addrs) == 1 {
			vs = addrs
		}
	}
	if len(vs) == 1 {
		d := vs[0]
		if v, ok := fr.vals[d.val]; ok {
			if d.addr {
				return fr.ex.load(st, v), true
			}
			return v, true
		}
	}
	// a variable of the lexically enclosing function that this closure does not capture
	if fr.fn.Parent() != nil {
		if p, ok := fr.ex.parentLocal(fr.fn, name); ok {
			v := fr.ex.load(st, p)
			if cal := fr.ex.w.closureStoredIn(fr.fn, name); cal != nil {
				v.F = &FuncInfo{Fn: cal}
			}
			return v, true
		}
	}
	return Val{}, false
}

func (ce *cenv) eval(e ast.Expr) Val {
	ex := ce.ex
	switch x := e.(type) {
	case *ast.ParenExpr:
		return ce.eval(x.X)
	case *ast.BasicLit:
		switch x.Kind {
		case token.INT:
			b, ok := new(big.Int).SetString(x.Value, 0)
			if !ok {
				ce.fail(e, "bad int literal")
			}
			return scalar(untypedInt, bigNum(b))
		case token.FLOAT:
			r, ok := new(big.Rat).SetString(x.Value)
			if !ok {
				ce.fail(e, "bad float literal")
			}
			return scalar(types.Typ[types.UntypedFloat], realLit(r))
		case token.STRING:
			s, _ := strconv.Unquote(x.Value)
			return scalar(types.Typ[types.String], ex.strConst(s))
		case token.CHAR:
			s, _ := strconv.Unquote(x.Value)
			return scalar(untypedInt, num(int64([]rune(s)[0])))
		}
	case *ast.Ident:
		if v, ok := ce.lookupIdent(x); ok {
			return v
		}
		ce.fail(e, "unknown identifier "+x.Name)
	case *ast.SelectorExpr:
		return ce.evalSelector(x)
	case *ast.StarExpr:
		p := ce.eval(x.X)
		return ex.load(ce.st, p)
	case *ast.UnaryExpr:
		v := ce.eval(x.X)
		switch x.Op {
		case token.NOT:
			return boolVal(not(v.L[0]))
		case token.SUB:
			if isRealVal(v) {
				return scalar(v.T, app("-", v.L[0]))
			}
			return scalar(v.T, app("-", v.L[0]))
		case token.ADD:
			return v
		}
		ce.fail(e, "unary operator")
	case *ast.BinaryExpr:
		return ce.evalBinary(x)
	case *ast.IndexExpr:
		c := ce.eval(x.X)
		i := ce.eval(x.Index)
		switch t := c.T.Underlying().(type) {
		case *types.Slice:
			return ex.sliceLoad(ce.st, c, i.L[0])
		case *types.Map:
			return ex.mapGet(ce.st, c, ex.mapKeyTerm(t, i))
		case *types.Pointer:
			if arr, ok := t.Elem().Underlying().(*types.Array); ok {
				return ex.load(ce.st, elemPtr(arr.Elem(), c.L[0], i.L[0]))
			}
		case *types.Basic:
			if t.Info()&types.IsString != 0 {
				ex.declareFun("str.at", []string{sStr, sInt}, sInt)
				return scalar(types.Typ[types.Byte], app("str.at", c.L[0], i.L[0]))
			}
		}
		ce.fail(e, "index on "+c.T.String())
	case *ast.SliceExpr:
		c := ce.eval(x.X)
		if _, ok := c.T.Underlying().(*types.Slice); !ok {
			ce.fail(e, "slice expression on non-slice")
		}
		lo, hi := "0", c.L[2]
		if x.Low != nil {
			lo = ce.eval(x.Low).L[0]
		}
		if x.High != nil {
			hi = ce.eval(x.High).L[0]
		}
		return sliceVal(c.T, c.L[0], app("+", c.L[1], lo), app("-", hi, lo), app("-", c.L[3], lo))
	case *ast.CallExpr:
		return ce.evalCall(x)
	case *ast.CompositeLit:
		t := ce.resolveType(x.Type)
		v := zeroVal(t)
		st, ok := t.Underlying().(*types.Struct)
		if !ok && len(x.Elts) > 0 {
			ce.fail(e, "composite literal of non-struct")
		}
		for i, el := range x.Elts {
			fi := i
			val := el
			if kv, ok := el.(*ast.KeyValueExpr); ok {
				fi = -1
				for j := 0; j < st.NumFields(); j++ {
					if st.Field(j).Name() == kv.Key.(*ast.Ident).Name {
						fi = j
					}
				}
				val = kv.Value
			}
			if fi < 0 {
				ce.fail(e, "unknown field in literal")
			}
			lo, hi := fieldRange(t, fi)
			fv := ce.coerce(ce.eval(val), st.Field(fi).Type())
			copy(v.L[lo:hi], fv.L)
		}
		return v
	}
	ce.fail(e, fmt.Sprintf("unsupported expression %T", e))
	return Val{}
}

func isRealVal(v Val) bool {
	b, ok := v.T.Underlying().(*types.Basic)
	return ok && b.Info()&types.IsFloat != 0
}

func isUntyped(v Val) bool {
	b, ok := v.T.(*types.Basic)
	return ok && b.Info()&types.IsUntyped != 0
}

// coerce adapts an untyped constant (or nil) to the wanted type.
func (ce *cenv) coerce(v Val, want types.Type) Val {
	if v.T == untypedNil {
		return zeroVal(want)
	}
	if isUntyped(v) {
		if wb, ok := want.Underlying().(*types.Basic); ok && wb.Info()&types.IsFloat != 0 && !isRealVal(v) {
			return scalar(want, app("to_real", v.L[0]))
		}
		return scalar(want, v.L[0])
	}
	return v
}

func (ce *cenv) evalBinary(x *ast.BinaryExpr) Val {
	ex := ce.ex
	switch x.Op {
	case token.LAND:
		return boolVal(and(ce.eval(x.X).L[0], ce.eval(x.Y).L[0]))
	case token.LOR:
		return boolVal(or(ce.eval(x.X).L[0], ce.eval(x.Y).L[0]))
	}
	a := ce.eval(x.X)
	b := ce.eval(x.Y)
	switch x.Op {
	case token.EQL, token.NEQ:
		var t string
		switch {
		case a.T == untypedNil && b.T == untypedNil:
			t = "true"
		case a.T == untypedNil:
			t = ce.isNil(b)
		case b.T == untypedNil:
			t = ce.isNil(a)
		default:
			if isUntyped(a) {
				a = ce.coerce(a, b.T)
			} else if isUntyped(b) {
				b = ce.coerce(b, a.T)
			}
			if isRealVal(a) != isRealVal(b) {
				if isRealVal(a) {
					b = scalar(a.T, app("to_real", b.L[0]))
				} else {
					a = scalar(b.T, app("to_real", a.L[0]))
				}
			}
			t = ex.valEq(a, b)
		}
		if x.Op == token.NEQ {
			t = not(t)
		}
		return boolVal(t)
	}
	// arithmetic and ordering: mathematical integers / reals
	if len(a.L) != 1 || len(b.L) != 1 {
		ce.fail(x, "arithmetic on composite values")
	}
	p, q := a.L[0], b.L[0]
	real := isRealVal(a) || isRealVal(b)
	if real {
		if !isRealVal(a) {
			p = app("to_real", p)
		}
		if !isRealVal(b) {
			q = app("to_real", q)
		}
	}
	rt := types.Type(types.Typ[types.Int])
	if real {
		rt = types.Typ[types.Float64]
	}
	if sb, ok := a.T.Underlying().(*types.Basic); ok && sb.Info()&types.IsString != 0 {
		if x.Op == token.ADD {
			ex.declareFun("str.cat", []string{sStr, sStr}, sStr)
			return scalar(a.T, app("str.cat", p, q))
		}
	}
	switch x.Op {
	case token.ADD:
		return scalar(rt, app("+", p, q))
	case token.SUB:
		return scalar(rt, app("-", p, q))
	case token.MUL:
		return scalar(rt, app("*", p, q))
	case token.QUO:
		if real {
			return scalar(rt, app("/", p, q))
		}
		return scalar(rt, app("div", p, q))
	case token.REM:
		return scalar(rt, app("mod", p, q))
	case token.LSS:
		return boolVal(app("<", p, q))
	case token.LEQ:
		return boolVal(app("<=", p, q))
	case token.GTR:
		return boolVal(app(">", p, q))
	case token.GEQ:
		return boolVal(app(">=", p, q))
	}
	ce.fail(x, "binary operator "+x.Op.String())
	return Val{}
}

func (ce *cenv) isNil(v Val) string {
	switch v.T.Underlying().(type) {
	case *types.Pointer, *types.Map, *types.Chan, *types.Signature, *types.Slice, *types.Interface:
		return eq(v.L[0], "0")
	}
	panic(unsupported("nil comparison on " + v.T.String()))
}

// evalSelector handles package-qualified names, field selection (auto-deref) and method values.
func (ce *cenv) evalSelector(x *ast.SelectorExpr) Val {
	ex := ce.ex
	if id, ok := x.X.(*ast.Ident); ok {
		if _, isVar := ce.lookupVarOnly(id); !isVar {
			if pkg := ce.importedPkg(id.Name); pkg != nil {
				obj := pkg.Pkg.Scope().Lookup(x.Sel.Name)
				if obj == nil {
					ce.fail(x, "unknown package member")
				}
				if v, ok := ce.objVal(pkg, obj, x); ok {
					return v
				}
				ce.fail(x, "cannot evaluate package member")
			}
		}
	}
	base := ce.eval(x.X)
	return ex.selectField(ce.st, base, x.Sel.Name, ce.pkg, func(msg string) { ce.fail(x, msg) })
}

func (ce *cenv) lookupVarOnly(id *ast.Ident) (Val, bool) {
	if v, ok := ce.vars[id.Name]; ok {
		return v, true
	}
	if ce.fr != nil {
		if v, ok := ce.fr.lookupLocal(id.Name, ce.blk, ce.st); ok {
			return v, true
		}
	}
	return Val{}, false
}

func (ce *cenv) importedPkg(name string) *ssa.Package {
	if ce.pkg == nil {
		return nil
	}
	for _, imp := range ce.pkg.Pkg.Imports() {
		if imp.Name() == name {
			return ce.ex.w.prog.Package(imp)
		}
	}
	return nil
}

// selectField selects a (possibly promoted) field by name from a struct value or pointer to struct.
func (ex *Exec) selectField(st *State, base Val, name string, from *ssa.Package, fail func(string)) Val {
	var fp *types.Package
	if from != nil {
		fp = from.Pkg
	}
	// model types have no selectable fields
	obj, path, _ := types.LookupFieldOrMethod(base.T, true, fp, name)
	if obj == nil {
		// unexported field of another package: look it up with that package
		if n, ok := derefType(base.T).(*types.Named); ok && n.Obj().Pkg() != nil {
			obj, path, _ = types.LookupFieldOrMethod(base.T, true, n.Obj().Pkg(), name)
		}
	}
	if _, isVar := obj.(*types.Var); !isVar {
		fail("no field " + name + " on " + base.T.String())
	}
	cur := base
	addr := false
	for _, idx := range path {
		if pt, ok := cur.T.Underlying().(*types.Pointer); ok {
			pi := ptrInfoOf(cur)
			np := *pi
			np.Path = append(append([]int{}, pi.Path...), idx)
			ft := pt.Elem().Underlying().(*types.Struct).Field(idx).Type()
			fptr := Val{T: types.NewPointer(ft), L: cur.L, P: &np}
			if isStructType(ft) {
				cur = fptr
				addr = true
				continue
			}
			cur = ex.load(st, fptr)
			addr = false
			continue
		}
		lo, hi := fieldRange(cur.T, idx)
		ft := cur.T.Underlying().(*types.Struct).Field(idx).Type()
		cur = Val{T: ft, L: cur.L[lo:hi]}
		addr = false
	}
	if addr {
		return ex.load(st, cur)
	}
	return cur
}

func derefType(t types.Type) types.Type {
	if p, ok := t.Underlying().(*types.Pointer); ok {
		return p.Elem()
	}
	return t
}

func (ce *cenv) resolveType(e ast.Expr) types.Type {
	switch x := e.(type) {
	case *ast.ParenExpr:
		return ce.resolveType(x.X)
	case *ast.Ident:
		if o := types.Universe.Lookup(x.Name); o != nil {
			if tn, ok := o.(*types.TypeName); ok {
				return tn.Type()
			}
		}
		if ce.pkg != nil {
			if o := ce.pkg.Pkg.Scope().Lookup(x.Name); o != nil {
				if tn, ok := o.(*types.TypeName); ok {
					return tn.Type()
				}
			}
		}
		// a type parameter of the generic function under contract denotes the instance's type argument
		for _, fn := range []*ssa.Function{ce.genericFn, frameFn(ce.fr)} {
			if fn == nil || fn.Origin() == nil {
				continue
			}
			tps := fn.Origin().TypeParams()
			for i := 0; i < tps.Len() && i < len(fn.TypeArgs()); i++ {
				if tps.At(i).Obj().Name() == x.Name {
					return fn.TypeArgs()[i]
				}
			}
		}
	case *ast.SelectorExpr:
		if id, ok := x.X.(*ast.Ident); ok {
			if pkg := ce.importedPkg(id.Name); pkg != nil {
				if o := pkg.Pkg.Scope().Lookup(x.Sel.Name); o != nil {
					if tn, ok := o.(*types.TypeName); ok {
						return tn.Type()
					}
				}
			}
		}
	case *ast.StarExpr:
		if t := ce.resolveType(x.X); t != nil {
			return types.NewPointer(t)
		}
	case *ast.ArrayType:
		if x.Len == nil {
			if t := ce.resolveType(x.Elt); t != nil {
				return types.NewSlice(t)
			}
		}
	}
	return nil
}

func (ce *cenv) evalCall(x *ast.CallExpr) Val {
	ex := ce.ex
	if id, ok := x.Fun.(*ast.Ident); ok {
		if v, handled := ce.pseudo(id.Name, x); handled {
			return v
		}
	}
	// conversion?
	if t := ce.resolveType(x.Fun); t != nil && len(x.Args) == 1 {
		a := ce.eval(x.Args[0])
		if isUntyped(a) {
			a = ce.coerce(a, t)
			if _, ok := t.Underlying().(*types.Basic); ok {
				return scalar(t, wrapIfInt(t, a.L[0]))
			}
			return a
		}
		return ex.convertVal(a.T, t, a, ce.st)
	}
	// method call
	if sel, ok := x.Fun.(*ast.SelectorExpr); ok {
		isPkg := false
		if id, ok := sel.X.(*ast.Ident); ok {
			if _, isVar := ce.lookupVarOnly(id); !isVar && ce.importedPkg(id.Name) != nil {
				isPkg = true
			}
		}
		if !isPkg {
			recv := ce.eval(sel.X)
			return ce.callMethod(x, recv, sel.Sel.Name)
		}
	}
	fv := ce.eval(x.Fun)
	if fv.F == nil || fv.F.Fn == nil {
		ce.fail(x, "call of non-static function")
	}
	sig := fv.F.Fn.Signature
	args := make([]Val, len(x.Args))
	for i, a := range x.Args {
		args[i] = ce.coerce(ce.eval(a), sig.Params().At(i).Type())
	}
	return ex.callPure(fv.F.Fn, args, fv.F.Bind, ce.st)
}

func wrapIfInt(t types.Type, term string) string {
	if b, ok := t.Underlying().(*types.Basic); ok && b.Info()&types.IsInteger != 0 {
		if c, ok := isConstTerm(term); ok {
			if lo, hi, ok2 := intRange(t); ok2 {
				l, _ := isConstTerm(lo)
				h, _ := isConstTerm(hi)
				if l != nil && h != nil && c.Cmp(l) >= 0 && c.Cmp(h) <= 0 {
					return term
				}
			}
		}
		return wrapInt(t, term)
	}
	return term
}

func (ce *cenv) callMethod(x *ast.CallExpr, recv Val, name string) Val {
	ex := ce.ex
	var fp *types.Package
	if ce.pkg != nil {
		fp = ce.pkg.Pkg
	}
	obj, _, _ := types.LookupFieldOrMethod(recv.T, true, fp, name)
	if obj == nil {
		if n, ok := derefType(recv.T).(*types.Named); ok && n.Obj().Pkg() != nil {
			obj, _, _ = types.LookupFieldOrMethod(recv.T, true, n.Obj().Pkg(), name)
		}
	}
	mo, ok := obj.(*types.Func)
	if !ok {
		// field of function type?
		ce.fail(x, "no method "+name+" on "+recv.T.String())
	}
	// interface method: contracts / handlers by interface
	if _, isIface := recv.T.Underlying().(*types.Interface); isIface {
		args := make([]Val, len(x.Args))
		for i, a := range x.Args {
			args[i] = ce.eval(a)
		}
		return ex.invokePure(recv, mo, args, ce.st)
	}
	fn := ex.w.prog.FuncValue(mo)
	if fn == nil {
		ce.fail(x, "no SSA function for method "+name)
	}
	sig := fn.Signature
	// adapt receiver: method wants pointer but we have value, or vice versa
	rt := sig.Recv().Type()
	_, wantPtr := rt.Underlying().(*types.Pointer)
	_, havePtr := recv.T.Underlying().(*types.Pointer)
	if wantPtr && !havePtr {
		ce.fail(x, "pointer-receiver method on value")
	}
	if !wantPtr && havePtr {
		recv = ex.load(ce.st, recv)
	}
	// promoted methods through embedded fields: walk to the embedded receiver
	if !types.Identical(derefType(recv.T), derefType(rt)) {
		_, path, _ := types.LookupFieldOrMethod(recv.T, true, mo.Pkg(), name)
		for _, idx := range path[:len(path)-1] {
			st := derefType(recv.T).Underlying().(*types.Struct)
			recv = ex.selectFieldIdx(ce.st, recv, idx, st)
		}
		_, havePtr = recv.T.Underlying().(*types.Pointer)
		if !wantPtr && havePtr {
			recv = ex.load(ce.st, recv)
		}
	}
	args := []Val{recv}
	for i, a := range x.Args {
		args = append(args, ce.coerce(ce.eval(a), sig.Params().At(i).Type()))
	}
	return ex.callPure(fn, args, nil, ce.st)
}

func (ex *Exec) selectFieldIdx(st *State, cur Val, idx int, stt *types.Struct) Val {
	ft := stt.Field(idx).Type()
	if _, ok := cur.T.Underlying().(*types.Pointer); ok {
		pi := ptrInfoOf(cur)
		np := *pi
		np.Path = append(append([]int{}, pi.Path...), idx)
		fptr := Val{T: types.NewPointer(ft), L: cur.L, P: &np}
		if isStructType(ft) {
			return fptr
		}
		return ex.load(st, fptr)
	}
	lo, hi := fieldRange(cur.T, idx)
	return Val{T: ft, L: cur.L[lo:hi]}
}

// pseudo implements the specification-only functions.
func (ce *cenv) pseudo(name string, x *ast.CallExpr) (Val, bool) {
	ex := ce.ex
	arg := func(i int) Val { return ce.eval(x.Args[i]) }
	switch name {
	case "imp":
		return boolVal(imp(arg(0).L[0], arg(1).L[0])), true
	case "iff":
		return boolVal(eq(arg(0).L[0], arg(1).L[0])), true
	case "ite":
		c := arg(0).L[0]
		a, b := arg(1), arg(2)
		if isUntyped(a) || a.T == untypedNil {
			a = ce.coerce(a, b.T)
		} else if isUntyped(b) || b.T == untypedNil {
			b = ce.coerce(b, a.T)
		}
		return ex.iteVal(c, a, b), true
	case "old":
		n := *ce
		n.st = ce.old
		return n.eval(x.Args[0]), true
	case "atlock": // value when the (single) monitor lock was acquired; at a call site: the state before the call
		n := *ce
		if ce.fr != nil && len(ce.fr.lockSnap) == 1 && ex.callerFrame == nil {
			for _, s := range ce.fr.lockSnap {
				n.st = s
			}
		} else if ex.callerFrame != nil {
			// the callee acquires the lock somewhere inside the call: the protected state it saw is unknown to the
			// caller, which only learns the relation to a havoced snapshot
			n.st = ex.atlockCallee(ce.old)
		} else {
			ce.fail(x, "atlock() needs exactly one monitor acquisition in the function")
		}
		return n.eval(x.Args[0]), true
	case "iter": // value at the start of the current loop iteration (only in `loop N step` clauses)
		if ce.fr == nil || ce.fr.curIter == nil {
			ce.fail(x, "iter() outside a step clause")
		}
		n := *ce
		n.st = ce.fr.curIter
		return n.eval(x.Args[0]), true
	case "forall", "exists":
		// forall(i, lo, hi, body):  lo <= i < hi
		id := x.Args[0].(*ast.Ident)
		*ce.nq++
		bv := fmt.Sprintf("%s!q%d_%d", id.Name, ex.nfresh, *ce.nq)
		ex.nfresh++
		lo := arg(1).L[0]
		hi := arg(2).L[0]
		rec := &qRecord{seen: map[string]bool{}}
		ex.qrec[bv] = rec
		body := ex.pureScope(func() string { return ce.with(id.Name, intVal(bv)).eval(x.Args[3]).L[0] })
		delete(ex.qrec, bv)
		rng := and(app("<=", lo, bv), app("<", bv, hi))
		return boolVal(orientQuant(name, bv, rng, body, rec)), true
	case "len":
		v := arg(0)
		switch t := v.T.Underlying().(type) {
		case *types.Slice:
			return intVal(v.L[2]), true
		case *types.Basic:
			ex.declareFun("str.len", []string{sStr}, sInt)
			return intVal(app("str.len", v.L[0])), true
		case *types.Pointer:
			if a, ok := t.Elem().Underlying().(*types.Array); ok {
				return intVal(num(a.Len())), true
			}
		}
		ce.fail(x, "len of "+v.T.String())
	case "cap":
		return intVal(arg(0).L[3]), true
	case "has": // has(m, k): key present in map
		m := arg(0)
		return boolVal(ex.mapHas(ce.st, m, ex.mapKeyTerm(m.T.Underlying().(*types.Map), arg(1)))), true
	case "fresh": // fresh(p): allocated after function entry
		v := arg(0)
		return boolVal(app(">", v.L[0], ce.old.Top)), true
	case "allocated": // allocated(p): reference existed at function entry
		v := arg(0)
		return boolVal(and(app("<=", "0", v.L[0]), app("<=", v.L[0], ce.old.Top))), true
	case "sameslice": // sameslice(a, b): the same slice — same backing array, same start, same length (== on slices in a clause compares the array only)
		a, b := arg(0), arg(1)
		return boolVal(and(eq(a.L[0], b.L[0]), eq(a.L[1], b.L[1]), eq(a.L[2], b.L[2]))), true
	case "suffixOf": // suffixOf(a, b): slice a is b[k:] for some k (same array, same end)
		a, b := arg(0), arg(1)
		return boolVal(and(eq(a.L[0], b.L[0]), eq(app("+", a.L[1], a.L[2]), app("+", b.L[1], b.L[2])), app("<=", a.L[2], b.L[2]), app("<=", b.L[1], a.L[1]))), true
	case "live": // live(p): reference is allocated in the current state
		v := arg(0)
		return boolVal(and(app("<=", "0", v.L[0]), app("<=", v.L[0], ce.st.Top))), true
	case "typeis": // typeis(iface, T)
		v := arg(0)
		t := ce.resolveType(x.Args[1])
		if t == nil {
			ce.fail(x, "unknown type")
		}
		return boolVal(eq(v.L[0], num(int64(ex.w.typeID(t))))), true
	case "chain": // chain(err, T): the Unwrap chain of err contains dynamic type T
		v := arg(0)
		t := ce.resolveType(x.Args[1])
		if t == nil {
			ce.fail(x, "unknown type in chain()")
		}
		return boolVal(ex.chainTerm(v, ex.w.typeID(t))), true
	case "noRepoErr": // the error's chain contains none of the module's error types
		v := arg(0)
		var cs []string
		for _, t := range ex.w.errTypes {
			cs = append(cs, not(ex.chainTerm(v, ex.w.typeID(t))))
		}
		return boolVal(and(cs...)), true
	case "onlyRepoErrs": // onlyRepoErrs(err, T1, ...): of the module's error types only T1... may occur in the chain
		v := arg(0)
		allowed := map[int]bool{}
		for _, a := range x.Args[1:] {
			t := ce.resolveType(a)
			if t == nil {
				ce.fail(x, "unknown type in onlyRepoErrs()")
			}
			allowed[ex.w.typeID(t)] = true
		}
		var cs []string
		for _, t := range ex.w.errTypes {
			if id := ex.w.typeID(t); !allowed[id] {
				cs = append(cs, not(ex.chainTerm(v, id)))
			}
		}
		return boolVal(and(cs...)), true
	case "isDeadline": // errors.Is(err, os.ErrDeadlineExceeded)
		return boolVal(ex.chainTerm(arg(0), chainDeadline)), true
	case "wraps": // wraps(err, cause): cause is in the chain of err
		return boolVal(ex.wrapsTerm(arg(0), arg(1))), true
	case "abs":
		v := arg(0)
		zero := "0"
		if isRealVal(v) {
			zero = "0.0"
		}
		return scalar(v.T, ite(app(">=", v.L[0], zero), v.L[0], app("-", v.L[0]))), true
	case "real":
		v := arg(0)
		if isRealVal(v) {
			return v, true
		}
		return scalar(types.Typ[types.Float64], app("to_real", v.L[0])), true
	case "be16": // be16(s, i): big-endian uint16 at s[i:i+2]
		s := arg(0)
		i := arg(1).L[0]
		b0 := ex.sliceLoad(ce.st, s, i).L[0]
		b1 := ex.sliceLoad(ce.st, s, addc(i, 1)).L[0]
		return scalar(types.Typ[types.Uint16], app("+", app("*", "256", b0), b1)), true
	case "be32":
		s := arg(0)
		i := arg(1).L[0]
		t := "0"
		for k := 0; k < 4; k++ {
			t = app("+", app("*", "256", t), ex.sliceLoad(ce.st, s, addc(i, int64(k))).L[0])
		}
		return scalar(types.Typ[types.Uint32], t), true
	case "held": // held(mu): mu is a sync.Mutex variable/field, or a *sync.Mutex
		if v, ok := ce.tryEval(x.Args[0]); ok {
			if pt, isPtr := v.T.Underlying().(*types.Pointer); isPtr && isNamed(pt.Elem(), "sync", "Mutex") {
				return ex.load(ce.st, v), true
			}
		}
		p := ce.evalAddr(x.Args[0])
		return ex.load(ce.st, p), true
	case "ref": // ref(x): the object reference of a pointer or of the payload of an interface value
		v := arg(0)
		if _, ok := v.T.Underlying().(*types.Interface); ok {
			return intVal(v.L[1]), true
		}
		return intVal(v.L[0]), true
	case "forallint": // forallint(h, body): unbounded integer quantifier (for ghost maps keyed by references)
		id := x.Args[0].(*ast.Ident)
		*ce.nq++
		bv := fmt.Sprintf("%s!q%d_%d", id.Name, ex.nfresh, *ce.nq)
		ex.nfresh++
		rec := &qRecord{seen: map[string]bool{}}
		ex.qrec[bv] = rec
		body := ex.pureScope(func() string { return ce.with(id.Name, intVal(bv)).eval(x.Args[1]).L[0] })
		delete(ex.qrec, bv)
		return boolVal(orientQuant("forall", bv, "true", body, rec)), true
	case "sameip": // sameip(a, b): same address bytes and family (zones are not on the wire)
		a, b := arg(0), arg(1)
		return boolVal(and(eq(a.L[0], b.L[0]), eq(a.L[1], b.L[1]), eq(eq(a.L[2], "4"), eq(b.L[2], "4")), eq(eq(a.L[2], "0"), eq(b.L[2], "0")))), true
	case "ghostaddr": // ghostaddr(ser.src): a netip.Addr recorded in ghost components
		gname := types.ExprString(x.Args[0])
		ex.initNetipTypes()
		v := Val{T: netipAddrT}
		for _, comp := range []string{"hi", "lo", "z"} {
			key := "X|" + gname + "." + comp
			ex.registerKey(key, sInt)
			v.L = append(v.L, ex.heapGet(ce.st, key, sInt))
		}
		return v, true
	case "ghost": // ghost(name) / ghost(ser.ttl)
		gname := types.ExprString(x.Args[0])
		if v, ok := ex.ghostGet(ce.st, gname); ok {
			return v, true
		}
		ce.fail(x, "unknown ghost")
	case "sel": // sel(arr, i...) on ghost arrays
		a := arg(0)
		t := a.L[0]
		for i := 1; i < len(x.Args); i++ {
			idx := arg(i).L[0]
			t = app("select", t, idx)
			if rec, ok := ex.qrec[idx]; ok && i == len(x.Args)-1 {
				rec.pats = append(rec.pats, t)
			}
		}
		return Val{T: types.Typ[types.Int], L: []string{t}}, true
	case "selb":
		a := arg(0)
		t := a.L[0]
		for i := 1; i < len(x.Args); i++ {
			idx := arg(i).L[0]
			t = app("select", t, idx)
			if rec, ok := ex.qrec[idx]; ok && i == len(x.Args)-1 {
				rec.pats = append(rec.pats, t)
			}
		}
		return boolVal(t), true
	case "calls": // calls(f): how many times the function-typed parameter f has been called
		id := x.Args[0].(*ast.Ident)
		key := "X|calls." + id.Name
		ex.registerKey(key, sInt)
		return intVal(ex.heapGet(ce.st, key, sInt)), true
	case "lastret": // lastret(f, i): i-th result of the most recent call through function-typed parameter f
		id := x.Args[0].(*ast.Ident)
		fv, ok := ce.lookupIdentName(id.Name)
		if !ok {
			ce.fail(x, "unknown function parameter")
		}
		sig, ok := fv.T.Underlying().(*types.Signature)
		if !ok {
			ce.fail(x, "lastret of a non-function")
		}
		idx, _ := strconv.Atoi(types.ExprString(x.Args[1]))
		rt := sig.Results().At(idx).Type()
		ls := leaves(rt)
		v := Val{T: rt, L: make([]string, len(ls))}
		for j, l := range ls {
			rk := fmt.Sprintf("X|result.%s.%d.%d", id.Name, idx, j)
			ex.registerKey(rk, l.Sort)
			v.L[j] = ex.heapGet(ce.st, rk, l.Sort)
		}
		return v, true
	case "rangeidx": // rangeidx(N): current index of the range loop with ordinal N (an enclosing loop of the clause's position)
		n, _ := strconv.Atoi(types.ExprString(x.Args[0]))
		if ce.fr == nil || n < 1 || n > len(ce.fr.loops.headers) {
			ce.fail(x, "rangeidx: no such loop")
		}
		for _, ins := range ce.fr.loops.headers[n-1].Instrs {
			phi, ok := ins.(*ssa.Phi)
			if !ok {
				break
			}
			if phi.Comment == "rangeindex" {
				if v, ok := ce.fr.vals[phi]; ok {
					return scalar(types.Typ[types.Int], app("+", v.L[0], "1")), true
				}
			}
		}
		ce.fail(x, "rangeidx: loop is not a range loop over a slice, or is not active here")
	case "nlmul": // nlmul(a, b): the product of two non-constant integers as executed code computes it (kept uninterpreted)
		ex.declareFun("nl.mul", []string{sInt, sInt}, sInt)
		a, b := arg(0), arg(1)
		return Val{T: a.T, L: []string{app("nl.mul", a.L[0], b.L[0])}}, true
	case "ctxTimeout": // ctxTimeout(ctx): the duration passed to the context.WithTimeout call that created ctx
		ex.registerKey("X|ctx.timeout", arrSort(sInt, sInt))
		return Val{T: types.Typ[types.Int64], L: []string{sel(ex.heapGet(ce.st, "X|ctx.timeout", arrSort(sInt, sInt)), arg(0).L[1])}}, true
	case "done": // done(ctx): the context is cancelled / expired in the current state (monotone)
		return boolVal(sel(ex.ctxDone(ce.st), arg(0).L[1])), true
	case "cancelled": // cancelled(cancelFn): the context that this context.CancelFunc cancels is done
		ex.registerKey("X|ctx.cancels", arrSort(sInt, sInt))
		return boolVal(sel(ex.ctxDone(ce.st), sel(ex.heapGet(ce.st, "X|ctx.cancels", arrSort(sInt, sInt)), arg(0).L[0]))), true
	case "bounded": // bounded(ctx): the context carries a finite deadline
		return boolVal(sel(ex.ctxBounded(ce.st), arg(0).L[1])), true
	case "reqBounded": // reqBounded(req): the *http.Request was built with a context that has a deadline
		ex.registerKey("X|http.reqctx", arrSort(sInt, sInt))
		rc := sel(ex.heapGet(ce.st, "X|http.reqctx", arrSort(sInt, sInt)), arg(0).L[0])
		return boolVal(sel(ex.ctxBounded(ce.st), rc)), true
	case "dnsAns": // dnsAns(q, v): the slice v is one the resolver returned for query text q
		return boolVal(ex.dnsAnswered(ce.st, arg(0).L[0], arg(1))), true
	case "iptext": // iptext(s): the textual form (net.IP.String) of the address whose raw bytes are the string s
		ex.declareFun("net.iptext", []string{sStr}, sStr)
		return Val{T: types.Typ[types.String], L: []string{app("net.iptext", arg(0).L[0])}}, true
	case "cachedval": // cachedval(key, T): the stored value, read as a T
		t := ce.resolveType(x.Args[1])
		if t == nil {
			ce.fail(x, "unknown type in cachedval()")
		}
		_, tag, ref, _ := ex.cacheArrays(ce.st)
		k := arg(0).L[0]
		return ex.unbox(ce.st, Val{L: []string{sel(tag, k), sel(ref, k)}}, t), true
	case "cachedAs": // cachedAs(key, T): the stored value has dynamic type T
		t := ce.resolveType(x.Args[1])
		if t == nil {
			ce.fail(x, "unknown type in cachedAs()")
		}
		_, tag, _, _ := ex.cacheArrays(ce.st)
		return boolVal(eq(sel(tag, arg(0).L[0]), num(int64(ex.w.typeID(t))))), true
	case "forallstr": // forallstr(k, body): quantifier over strings (ghost maps keyed by strings)
		id := x.Args[0].(*ast.Ident)
		*ce.nq++
		bv := fmt.Sprintf("%s!q%d_%d", id.Name, ex.nfresh, *ce.nq)
		ex.nfresh++
		body := ex.pureScope(func() string {
			return ce.with(id.Name, Val{T: types.Typ[types.String], L: []string{bv}}).eval(x.Args[1]).L[0]
		})
		return boolVal("(forall ((" + bv + " " + sStr + ")) " + body + ")"), true
	case "cached": // cached(key): the go-cache holds an unexpired value for key
		return boolVal(ex.cacheLive(ce.st, arg(0).L[0])), true
	case "cachedref": // cachedref(key): reference of the stored value (payload of the stored interface)
		_, _, ref, _ := ex.cacheArrays(ce.st)
		return intVal(sel(ref, arg(0).L[0])), true
	case "expected": // expected(counter): the counter's value once every goroutine spawned so far has finished
		return intVal(ex.expectedGet(ce.st, x.Args[0].(*ast.Ident).Name)), true
	case "nspawned": // nspawned("F$1"): number of goroutines started so far that run closure F$1
		key := "X|nspawn." + fnNameArg(x.Args[0])
		ex.registerKey(key, sInt)
		return intVal(ex.heapGet(ce.st, key, sInt)), true
	case "ncalls": // ncalls(fn): number of contract calls of fn made so far by this unit
		fn := fnNameArg(x.Args[0])
		key := "X|ncalls." + fn
		ex.registerKey(key, sInt)
		return intVal(ex.heapGet(ce.st, key, sInt)), true
	case "lastres": // lastres(fn, i): i-th result of the most recent contract call of fn
		fn := fnNameArg(x.Args[0])
		idx, _ := strconv.Atoi(types.ExprString(x.Args[1]))
		rt, ok := ex.lastResTypes[fmt.Sprintf("%s.%d", fn, idx)]
		if !ok && (fn == "RawConn.Control" || fn == "RawConn.Write" || fn == "RawConn.Read" || fn == "DecodeLayers") && idx == 0 {
			rt, ok = errorT(), true
		}
		if !ok {
			sig := ex.contractSig(ce.pkg, fn)
			if sig == nil || idx >= sig.Results().Len() {
				ce.fail(x, "no contract named "+fn)
			}
			rt = sig.Results().At(idx).Type()
		}
		ls := leaves(rt)
		v := Val{T: rt, L: make([]string, len(ls))}
		for j, l := range ls {
			rk := fmt.Sprintf("X|lastres.%s.%d.%d", fn, idx, j)
			ex.registerKey(rk, l.Sort)
			v.L[j] = ex.heapGet(ce.st, rk, l.Sort)
		}
		return v, true
	case "lastarg": // lastarg(fn, param): argument passed for `param` in the most recent contract call of fn
		fn := fnNameArg(x.Args[0])
		pn := x.Args[1].(*ast.Ident).Name
		info, ok := ex.lastArgTypes[fn+"."+pn]
		if !ok {
			if sig := ex.contractSig(ce.pkg, fn); sig != nil {
				for i := 0; i < sig.Params().Len(); i++ {
					if sig.Params().At(i).Name() == pn {
						info, ok = sig.Params().At(i).Type(), true
					}
				}
			}
		}
		if !ok {
			ce.fail(x, "no recorded call of "+fn+" with parameter "+pn)
		}
		ls := leaves(info)
		v := Val{T: info, L: make([]string, len(ls))}
		for j, l := range ls {
			rk := fmt.Sprintf("X|lastarg.%s.%s.%d", fn, pn, j)
			ex.registerKey(rk, l.Sort)
			v.L[j] = ex.heapGet(ce.st, rk, l.Sort)
		}
		return v, true
	case "now": // ghost clock
		v, _ := ex.ghostGet(ce.st, "clock")
		return v, true
	}
	return Val{}, false
}

// evalAddr evaluates an addressable expression to a pointer.
func (ce *cenv) evalAddr(e ast.Expr) Val {
	switch x := e.(type) {
	case *ast.ParenExpr:
		return ce.evalAddr(x.X)
	case *ast.SelectorExpr:
		base := ce.eval(x.X)
		if _, ok := base.T.Underlying().(*types.Pointer); !ok {
			ce.fail(e, "address of field of non-pointer")
		}
		obj, path, _ := types.LookupFieldOrMethod(base.T, true, derefNamedPkg(base.T), x.Sel.Name)
		if obj == nil {
			ce.fail(e, "no field")
		}
		cur := base
		for _, idx := range path {
			st := derefType(cur.T).Underlying().(*types.Struct)
			pi := ptrInfoOf(cur)
			np := *pi
			np.Path = append(append([]int{}, pi.Path...), idx)
			cur = Val{T: types.NewPointer(st.Field(idx).Type()), L: cur.L, P: &np}
		}
		return cur
	case *ast.Ident:
		if ce.fr != nil {
			for i, fv := range ce.fr.fn.FreeVars {
				if fv.Name() == x.Name {
					return ce.fr.bind[i]
				}
			}
			for _, b := range ce.fr.fn.Blocks {
				for _, ins := range b.Instrs {
					if a, ok := ins.(*ssa.Alloc); ok && a.Comment == x.Name {
						if pv, have := ce.fr.vals[a]; have {
							return pv
						}
					}
				}
			}
			for _, d := range ce.ex.w.localDefs(ce.fr.fn)[x.Name] {
				if d.addr {
					if v, ok := ce.fr.vals[d.val]; ok {
						return v
					}
				}
			}
			if ce.fr.fn.Parent() != nil {
				if p, ok := ce.ex.parentLocal(ce.fr.fn, x.Name); ok {
					return p
				}
			}
		}
	}
	ce.fail(e, "not addressable")
	return Val{}
}

func derefNamedPkg(t types.Type) *types.Package {
	if n, ok := derefType(t).(*types.Named); ok {
		return n.Obj().Pkg()
	}
	return nil
}

var _ = constant.MakeBool
var _ = strings.TrimSpace

// replaceToken replaces whole-token occurrences of an SMT symbol.
func replaceToken(s, tok, repl string) string {
	var b strings.Builder
	i := 0
	for i < len(s) {
		j := strings.Index(s[i:], tok)
		if j < 0 {
			b.WriteString(s[i:])
			break
		}
		j += i
		end := j + len(tok)
		before := j == 0 || s[j-1] == ' ' || s[j-1] == '('
		after := end == len(s) || s[end] == ' ' || s[end] == ')'
		b.WriteString(s[i:j])
		if before && after {
			b.WriteString(repl)
		} else {
			b.WriteString(tok)
		}
		i = end
	}
	return b.String()
}

// findSelectPattern finds a term "(select (select H arr) k)" in body to use as the quantifier pattern.
func findSelectPattern(body, arr, k string) string {
	if strings.Contains(arr, "l!") {
		return "" // let-bound names are not in scope of a pattern
	}
	suffix := " " + arr + ") " + k + ")"
	j := strings.Index(body, suffix)
	if j < 0 {
		return ""
	}
	// walk back to the matching "(select (select"
	end := j + len(suffix)
	d := 0
	for i := end - 1; i >= 0; i-- {
		switch body[i] {
		case ')':
			d++
		case '(':
			d--
			if d == 0 {
				t := body[i:end]
				if strings.HasPrefix(t, "(select (select ") && !strings.Contains(t, "l!") {
					return t
				}
				return ""
			}
		}
	}
	return ""
}

// orientQuant builds a quantified formula over bv, re-expressed over the absolute element index of each slice
// that the body indexes directly with bv, so that "(select row k)" can serve as an arithmetic-free pattern.
func orientQuant(q, bv, rng, body string, rec *qRecord) string {
	mk := func(r, b string) string {
		if q == "forall" {
			return imp(r, b)
		}
		return and(r, b)
	}
	plain := "(" + q + " ((" + bv + " Int)) " + mk(rng, body) + ")"
	if rec != nil && len(rec.acc) == 0 && len(rec.pats) > 0 && !strings.Contains(rec.pats[0], "l!") && !strings.Contains(rec.pats[0], "(ite ") {
		// a ghost array indexed directly by the bound variable gives the pattern
		return "(" + q + " ((" + bv + " Int)) (! " + mk(rng, body) + " :pattern (" + rec.pats[0] + ")))"
	}
	if rec == nil || len(rec.acc) == 0 {
		return plain
	}
	var parts []string
	for n, a := range rec.acc {
		off := a[1]
		if off == "0" {
			pat := findSelectPattern(body, a[0], bv)
			if pat == "" {
				parts = append(parts, plain)
			} else {
				parts = append(parts, "("+q+" (("+bv+" Int)) (! "+mk(rng, body)+" :pattern ("+pat+")))")
			}
			continue
		}
		k := fmt.Sprintf("%s!k%d", bv, n)
		idx := at(off, bv)
		b2 := strings.ReplaceAll(body, idx, k)
		shifted := app("-", k, off)
		b2 = replaceToken(b2, bv, shifted)
		r2 := replaceToken(rng, bv, shifted)
		pat := findSelectPattern(b2, a[0], k)
		if pat == "" {
			parts = append(parts, "("+q+" (("+k+" Int)) "+mk(r2, b2)+")")
		} else {
			parts = append(parts, "("+q+" (("+k+" Int)) (! "+mk(r2, b2)+" :pattern ("+pat+")))")
		}
	}
	if q == "forall" {
		return and(parts...)
	}
	return parts[0]
}

// fnNameArg: a contract name given as an expression (T.M, f) or, for closures, as a string literal ("F$1").
func fnNameArg(e ast.Expr) string {
	if bl, ok := e.(*ast.BasicLit); ok && bl.Kind == token.STRING {
		s, _ := strconv.Unquote(bl.Value)
		return s
	}
	return types.ExprString(e)
}

// contractSig finds the signature of the function a contract (by name, in package pkg) describes.
func (ex *Exec) contractSig(pkg *ssa.Package, name string) *types.Signature {
	if pkg != nil {
		if s := ex.contractSig0(pkg, name); s != nil {
			return s
		}
	}
	return ex.contractSig0(nil, name)
}

func (ex *Exec) contractSig0(pkg *ssa.Package, name string) *types.Signature {
	for _, c := range ex.w.allContracts {
		if c.Name != name || (pkg != nil && c.Pkg != pkg) {
			continue
		}
		if c.Fn != nil {
			return c.Fn.Signature
		}
		if c.IfaceKey != "" && c.Pkg != nil {
			parts := strings.Split(name, ".")
			if len(parts) == 2 {
				if o := c.Pkg.Pkg.Scope().Lookup(parts[0]); o != nil {
					if it, ok := o.Type().Underlying().(*types.Interface); ok {
						for i := 0; i < it.NumMethods(); i++ {
							if it.Method(i).Name() == parts[1] {
								return it.Method(i).Type().(*types.Signature)
							}
						}
					}
				}
			}
		}
	}
	return nil
}

// tryEval evaluates e, reporting failure instead of refusing the unit.
func (ce *cenv) tryEval(e ast.Expr) (v Val, ok bool) {
	defer func() {
		if r := recover(); r != nil {
			if _, isU := r.(unsupportedErr); isU {
				ok = false
				return
			}
			panic(r)
		}
	}()
	return ce.eval(e), true
}

func frameFn(fr *frame) *ssa.Function {
	if fr == nil {
		return nil
	}
	return fr.fn
}
