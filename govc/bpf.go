package main

import (
	"fmt"
	"go/constant"
	"go/token"
	"go/types"
	"strings"

	"golang.org/x/tools/go/ssa"
)

// C12: every cBPF program the repository installs is proved equivalent, for ALL frames, frame lengths and
// filter configurations, to a reference predicate transcribed from the property statement. The programs are read
// mechanically from the SSA of packets/cbpf_filters.go (composite literals in the package initialiser) and
// packets/tcp_filter.go (the literal handed to bpf.Assemble, with symbolic address/port operands). The programs are
// loop-free (forward jumps only), so one bit-vector query per program is a complete proof.
//
// Trusted: the semantics of the ten cBPF opcodes used (below), and bpf.Assemble being the field-wise encoder.

type bpfIns struct {
	op   string // ld, ldx4, jeq, jset, ret
	size int    // load size in bytes
	ind  bool   // indirect load [x+k]
	k    string // operand as an SMT BV32 term
	jt   int
	jf   int
}

type bpfProg struct {
	name string
	ins  []bpfIns
	syms map[string]string // symbolic operands → constraint
	pos  string
}

func bv32(v uint64) string { return fmt.Sprintf("#x%08x", v&0xffffffff) }

// rawProgram reads a `var x = []bpf.RawInstruction{...}` literal from the package initialiser.
func (w *World) rawProgram(pkg *ssa.Package, name string) (*bpfProg, error) {
	g, ok := pkg.Members[name].(*ssa.Global)
	if !ok {
		return nil, fmt.Errorf("global %s not found", name)
	}
	gi := w.initStore(g)
	if !gi.immutable {
		return nil, fmt.Errorf("global %s is not assigned exactly once in init", name)
	}
	sl, ok := gi.val.(*ssa.Slice)
	if !ok {
		return nil, fmt.Errorf("global %s: initialiser is not a slice literal", name)
	}
	al, ok := sl.X.(*ssa.Alloc)
	if !ok {
		return nil, fmt.Errorf("global %s: not a literal array", name)
	}
	arr := al.Type().Underlying().(*types.Pointer).Elem().Underlying().(*types.Array)
	n := int(arr.Len())
	type raw struct{ op, jt, jf, k uint64 }
	rs := make([]raw, n)
	for _, ref := range *al.Referrers() {
		ia, ok := ref.(*ssa.IndexAddr)
		if !ok {
			continue
		}
		idx := int(ia.Index.(*ssa.Const).Int64())
		for _, r2 := range *ia.Referrers() {
			st, ok := r2.(*ssa.Store)
			if !ok {
				continue
			}
			fields, err := w.structLiteralFields(st.Val)
			if err != nil {
				return nil, fmt.Errorf("%s[%d]: %v", name, idx, err)
			}
			for fname, fv := range fields {
				c, ok := fv.(*ssa.Const)
				if !ok {
					return nil, fmt.Errorf("%s[%d].%s is not a constant", name, idx, fname)
				}
				v := c.Uint64()
				switch fname {
				case "Op":
					rs[idx].op = v
				case "Jt":
					rs[idx].jt = v
				case "Jf":
					rs[idx].jf = v
				case "K":
					rs[idx].k = v
				}
			}
		}
	}
	p := &bpfProg{name: name, syms: map[string]string{}, pos: w.fset.Position(g.Pos()).String()}
	for i, r := range rs {
		var in bpfIns
		in.k = bv32(r.k)
		in.jt, in.jf = int(r.jt), int(r.jf)
		switch r.op {
		case 0x20:
			in.op, in.size = "ld", 4
		case 0x28:
			in.op, in.size = "ld", 2
		case 0x30:
			in.op, in.size = "ld", 1
		case 0x40:
			in.op, in.size, in.ind = "ld", 4, true
		case 0x48:
			in.op, in.size, in.ind = "ld", 2, true
		case 0x50:
			in.op, in.size, in.ind = "ld", 1, true
		case 0xb1:
			in.op = "ldx4"
		case 0x15:
			in.op = "jeq"
		case 0x45:
			in.op = "jset"
		case 0x06:
			in.op = "ret"
		default:
			return nil, fmt.Errorf("%s[%d]: opcode %#x is outside the modelled cBPF subset", name, i, r.op)
		}
		p.ins = append(p.ins, in)
	}
	return p, nil
}

// assembledProgram reads the []bpf.Instruction literal passed to bpf.Assemble inside fn.
func (w *World) assembledProgram(fn *ssa.Function) (*bpfProg, error) {
	var call *ssa.Call
	for _, b := range fn.Blocks {
		for _, ins := range b.Instrs {
			if c, ok := ins.(*ssa.Call); ok {
				if f, ok := c.Call.Value.(*ssa.Function); ok && f.String() == "golang.org/x/net/bpf.Assemble" {
					call = c
				}
			}
		}
	}
	if call == nil {
		return nil, fmt.Errorf("no call to bpf.Assemble in %s", fn)
	}
	sl, ok := call.Call.Args[0].(*ssa.Slice)
	if !ok {
		return nil, fmt.Errorf("bpf.Assemble argument is not a literal")
	}
	al, ok := sl.X.(*ssa.Alloc)
	if !ok {
		return nil, fmt.Errorf("bpf.Assemble argument is not a literal array")
	}
	n := int(al.Type().Underlying().(*types.Pointer).Elem().Underlying().(*types.Array).Len())
	p := &bpfProg{name: fn.Name(), syms: map[string]string{}, pos: w.fset.Position(fn.Pos()).String()}
	p.ins = make([]bpfIns, n)
	bpfPkg := w.pkgs["golang.org/x/net/bpf"]
	jumpConst := func(name string) int64 {
		c := bpfPkg.Pkg.Scope().Lookup(name).(*types.Const)
		v, _ := constant.Int64Val(c.Val())
		return v
	}
	for _, ref := range *al.Referrers() {
		ia, ok := ref.(*ssa.IndexAddr)
		if !ok {
			continue
		}
		idx := int(ia.Index.(*ssa.Const).Int64())
		for _, r2 := range *ia.Referrers() {
			st, ok := r2.(*ssa.Store)
			if !ok {
				continue
			}
			mi, ok := st.Val.(*ssa.MakeInterface)
			if !ok {
				return nil, fmt.Errorf("instruction %d is not a literal", idx)
			}
			tname := mi.X.Type().(*types.Named).Obj().Name()
			fields, err := w.structLiteralFields(mi.X)
			if err != nil {
				return nil, fmt.Errorf("instruction %d: %v", idx, err)
			}
			operand := func(f string) (string, error) {
				v, ok := fields[f]
				if !ok {
					return bv32(0), nil
				}
				if c, ok := v.(*ssa.Const); ok {
					return bv32(c.Uint64()), nil
				}
				// a computed operand: symbolic, named after the source variable it comes from; an expression over the
				// four configuration values (shifts, masks, sums) is translated term by term
				base := map[string]bool{"srcAddr": true, "dstAddr": true, "srcPort": true, "dstPort": true}
				var term func(v ssa.Value, depth int) (string, bool)
				term = func(v ssa.Value, depth int) (string, bool) {
					if depth > 8 {
						return "", false
					}
					if c, ok := v.(*ssa.Const); ok {
						return bv32(c.Uint64()), true
					}
					if nm := w.sourceName(fn, v); base[nm] {
						p.syms[nm] = describeOperand(v)
						return "k_" + nm, true
					}
					switch x := v.(type) {
					case *ssa.Call:
						// c.Src.Port() / c.Dst.Port() on the filter configuration
						if f := x.Call.StaticCallee(); f != nil && f.Name() == "Port" && len(x.Call.Args) == 1 {
							fname := ""
							switch a := x.Call.Args[0].(type) {
							case *ssa.Field:
								fname = a.X.Type().Underlying().(*types.Struct).Field(a.Field).Name()
							case *ssa.UnOp:
								if fa, ok := a.X.(*ssa.FieldAddr); ok {
									fname = fa.X.Type().Underlying().(*types.Pointer).Elem().Underlying().(*types.Struct).Field(fa.Field).Name()
								}
							}
							switch fname {
							case "Src":
								p.syms["srcPort"] = "c.Src.Port()"
								return "k_srcPort", true
							case "Dst":
								p.syms["dstPort"] = "c.Dst.Port()"
								return "k_dstPort", true
							}
						}
						return "", false
					case *ssa.Convert:
						return term(x.X, depth+1)
					case *ssa.BinOp:
						a, oka := term(x.X, depth+1)
						b, okb := term(x.Y, depth+1)
						if !oka || !okb {
							return "", false
						}
						ops := map[token.Token]string{token.SHL: "bvshl", token.OR: "bvor", token.AND: "bvand", token.ADD: "bvadd", token.SUB: "bvsub", token.XOR: "bvxor", token.SHR: "bvlshr"}
						if o, ok := ops[x.Op]; ok {
							return "(" + o + " " + a + " " + b + ")", true
						}
					}
					return "", false
				}
				if t, ok := term(v, 0); ok {
					return t, nil
				}
				nm := w.sourceName(fn, v)
				if nm == "" {
					return "", fmt.Errorf("operand %s is neither a constant nor a named local", f)
				}
				p.syms[nm] = describeOperand(v)
				return "k_" + nm, nil
			}
			cnum := func(f string) int {
				if c, ok := fields[f].(*ssa.Const); ok {
					return int(c.Int64())
				}
				return 0
			}
			var in bpfIns
			switch tname {
			case "LoadAbsolute":
				in.op, in.size = "ld", cnum("Size")
				in.k, err = operand("Off")
			case "LoadIndirect":
				in.op, in.size, in.ind = "ld", cnum("Size"), true
				in.k, err = operand("Off")
			case "LoadMemShift":
				in.op = "ldx4"
				in.k, err = operand("Off")
			case "JumpIf":
				switch int64(cnum("Cond")) {
				case jumpConst("JumpEqual"):
					in.op = "jeq"
				case jumpConst("JumpBitsSet"):
					in.op = "jset"
				default:
					return nil, fmt.Errorf("instruction %d: jump condition outside the modelled subset", idx)
				}
				in.k, err = operand("Val")
				in.jt, in.jf = cnum("SkipTrue"), cnum("SkipFalse")
			case "RetConstant":
				in.op = "ret"
				in.k, err = operand("Val")
			default:
				return nil, fmt.Errorf("instruction %d: %s is outside the modelled cBPF subset", idx, tname)
			}
			if err != nil {
				return nil, err
			}
			p.ins[idx] = in
		}
	}
	for i, in := range p.ins {
		if in.op == "" {
			return nil, fmt.Errorf("instruction %d missing from the literal", i)
		}
	}
	return p, nil
}

func describeOperand(v ssa.Value) string {
	return v.String()
}

// structLiteralFields returns the field values of a struct literal value (`T{A: x, B: y}` as built by the SSA builder).
func (w *World) structLiteralFields(v ssa.Value) (map[string]ssa.Value, error) {
	ld, ok := v.(*ssa.UnOp)
	if !ok || ld.Op != token.MUL {
		if c, ok := v.(*ssa.Const); ok && c.Value == nil {
			return map[string]ssa.Value{}, nil
		}
		return nil, fmt.Errorf("not a struct literal: %s", v)
	}
	al, ok := ld.X.(*ssa.Alloc)
	if !ok {
		return nil, fmt.Errorf("not a struct literal")
	}
	st := al.Type().Underlying().(*types.Pointer).Elem().Underlying().(*types.Struct)
	out := map[string]ssa.Value{}
	for _, ref := range *al.Referrers() {
		fa, ok := ref.(*ssa.FieldAddr)
		if !ok {
			continue
		}
		for _, r2 := range *fa.Referrers() {
			if s, ok := r2.(*ssa.Store); ok {
				out[st.Field(fa.Field).Name()] = s.Val
			}
		}
	}
	return out, nil
}

// sourceName finds the source-level variable name of an SSA value through the debug references.
func (w *World) sourceName(fn *ssa.Function, v ssa.Value) string {
	for name, defs := range w.localDefs(fn) {
		for _, d := range defs {
			if d.val == v {
				return name
			}
		}
	}
	return ""
}

// ---- VM semantics --------------------------------------------------------------------------------

func pktByte(addr string) string { return "(select pkt " + addr + ")" }

// inBounds: addr + size <= len without 32-bit overflow of the address computation
func inBounds(addr string, size int) string {
	return fmt.Sprintf("(and (bvule %s (bvsub len %s)) (bvuge len %s))", addr, bv32(uint64(size)), bv32(uint64(size)))
}

func loadBE(addr string, size int) string {
	parts := []string{}
	for i := 0; i < size; i++ {
		parts = append(parts, pktByte(fmt.Sprintf("(bvadd %s %s)", addr, bv32(uint64(i)))))
	}
	v := parts[0]
	for _, p := range parts[1:] {
		v = "(concat " + v + " " + p + ")"
	}
	if size < 4 {
		v = fmt.Sprintf("((_ zero_extend %d) %s)", 32-8*size, v)
	}
	return v
}

// accepts builds the formula "the program returns non-zero", exploring every path (programs are loop-free).
func (p *bpfProg) accepts() (string, error) {
	var rec func(pc int, a, x string, depth int) (string, error)
	rec = func(pc int, a, x string, depth int) (string, error) {
		if pc >= len(p.ins) {
			return "false", nil // falling off the end is rejected by the kernel verifier; treat as drop
		}
		if depth > 64 {
			return "", fmt.Errorf("path too long")
		}
		in := p.ins[pc]
		switch in.op {
		case "ret":
			return "(not (= " + in.k + " #x00000000))", nil
		case "ld":
			addr := in.k
			if in.ind {
				addr = "(bvadd " + x + " " + in.k + ")"
			}
			ok := inBounds(addr, in.size)
			if in.ind {
				// the address computation itself must not wrap
				ok = "(and (bvuge " + addr + " " + x + ") " + ok + ")"
			}
			rest, err := rec(pc+1, loadBE(addr, in.size), x, depth+1)
			if err != nil {
				return "", err
			}
			return "(and " + ok + " " + rest + ")", nil
		case "ldx4":
			ok := inBounds(in.k, 1)
			nx := "(bvmul #x00000004 (bvand ((_ zero_extend 24) " + pktByte(in.k) + ") #x0000000f))"
			rest, err := rec(pc+1, a, nx, depth+1)
			if err != nil {
				return "", err
			}
			return "(and " + ok + " " + rest + ")", nil
		case "jeq", "jset":
			var c string
			if in.op == "jeq" {
				c = "(= " + a + " " + in.k + ")"
			} else {
				c = "(not (= (bvand " + a + " " + in.k + ") #x00000000))"
			}
			if in.jt < 0 || in.jf < 0 {
				return "", fmt.Errorf("backward jump")
			}
			t, err := rec(pc+1+in.jt, a, x, depth+1)
			if err != nil {
				return "", err
			}
			f, err := rec(pc+1+in.jf, a, x, depth+1)
			if err != nil {
				return "", err
			}
			return "(ite " + c + " " + t + " " + f + ")", nil
		}
		return "", fmt.Errorf("unknown op")
	}
	return rec(0, "#x00000000", "#x00000000", 0)
}

// ---- reference predicates (from the property statement, with explicit in-bounds conditions) ------

func u8(i int) string   { return pktByte(bv32(uint64(i))) }
func has(n int) string  { return "(bvuge len " + bv32(uint64(n)) + ")" } // at least n bytes
func be16at(i int) string { return "(concat " + u8(i) + " " + u8(i+1) + ")" }
func be32at(i int) string {
	return "(concat (concat (concat " + u8(i) + " " + u8(i+1) + ") " + u8(i+2) + ") " + u8(i+3) + ")"
}

const refIsIPv4 = "(and (bvuge len #x0000000e) (= (concat (select pkt #x0000000c) (select pkt #x0000000d)) #x0800))"
const refIsIPv6 = "(and (bvuge len #x0000000e) (= (concat (select pkt #x0000000c) (select pkt #x0000000d)) #x86dd))"

// fragment offset (13 bits) of the IPv4 header is zero ("unfragmented" read as tcpdump reads it: offset zero)
func refFragOffsetZero() string {
	return "(and " + has(22) + " (= (bvand " + be16at(20) + " #x1fff) #x0000))"
}

// start of the transport header: 14 + 4*IHL
const refL4 = "(bvadd #x0000000e (bvmul #x00000004 (bvand ((_ zero_extend 24) (select pkt #x0000000e)) #x0000000f)))"

func l4Has(off, size int) string {
	a := "(bvadd " + refL4 + " " + bv32(uint64(off)) + ")"
	return inBounds(a, size)
}
func l4Byte(off int) string { return pktByte("(bvadd " + refL4 + " " + bv32(uint64(off)) + ")") }
func l4BE16(off int) string { return "(concat " + l4Byte(off) + " " + l4Byte(off+1) + ")" }

func bpfReference(name string) (string, bool) {
	switch name {
	case "dropAllFilter":
		return "false", true
	case "icmpFilter":
		v4 := "(and " + refIsIPv4 + " " + has(24) + " (= " + u8(23) + " #x01))"
		v6 := "(and " + refIsIPv6 + " " + has(21) + " (or (= " + u8(20) + " #x3a) (and (= " + u8(20) + " #x2c) " + has(55) + " (= " + u8(54) + " #x3a))))"
		return "(or " + v4 + " " + v6 + ")", true
	case "tcpSynackFilter":
		flags := l4Byte(13)
		return "(and " + refIsIPv4 + " " + has(24) + " (= " + u8(23) + " #x06) " + refFragOffsetZero() + " " + has(15) + " " + l4Has(13, 1) +
			" (not (= (bvand " + flags + " #x02) #x00)) (not (= (bvand " + flags + " #x10) #x00)))", true
	case "GenerateTCP4Filter":
		icmp := "(= " + u8(23) + " #x01)"
		tcp := "(and (= " + u8(23) + " #x06) " + has(30) + " (= " + be32at(26) + " k_srcAddr) " + has(34) + " (= " + be32at(30) + " k_dstAddr) " +
			refFragOffsetZero() + " " + has(15) + " " + l4Has(0, 2) + " (= ((_ zero_extend 16) " + l4BE16(0) + ") k_srcPort) " + l4Has(2, 2) + " (= ((_ zero_extend 16) " + l4BE16(2) + ") k_dstPort))"
		return "(and " + refIsIPv4 + " " + has(24) + " (or " + icmp + " " + tcp + "))", true
	}
	return "", false
}

// bpfObligations builds the C12 lemma queries.
type bpfOb struct {
	Name, Text, Pos, Query string
	Instrs                int
	Acc, Ref              string // SMT terms: the program accepts / the reference predicate holds
	Prop                  string // property the lemma serves
}

func (w *World) bpfObligations() ([]bpfOb, []string) {
	var out []bpfOb
	var errs []string
	pkg := w.pkgs[w.module+"/packets"]
	if pkg == nil {
		return nil, []string{"package packets not loaded"}
	}
	var progs []*bpfProg
	for _, n := range []string{"dropAllFilter", "icmpFilter", "tcpSynackFilter"} {
		p, err := w.rawProgram(pkg, n)
		if err != nil {
			errs = append(errs, n+": "+err.Error())
			continue
		}
		progs = append(progs, p)
	}
	if fc, ok := pkg.Members["FilterConfig"].(*ssa.Type); ok {
		ms := w.prog.MethodSets.MethodSet(fc.Type())
		for i := 0; i < ms.Len(); i++ {
			if ms.At(i).Obj().Name() == "GenerateTCP4Filter" {
				p, err := w.assembledProgram(w.prog.MethodValue(ms.At(i)))
				if err != nil {
					errs = append(errs, "GenerateTCP4Filter: "+err.Error())
				} else {
					progs = append(progs, p)
				}
			}
		}
	}
	for _, p := range progs {
		ref, ok := bpfReference(p.name)
		if !ok {
			errs = append(errs, p.name+": no reference predicate")
			continue
		}
		acc, err := p.accepts()
		if err != nil {
			errs = append(errs, p.name+": "+err.Error())
			continue
		}
		var b strings.Builder
		b.WriteString("(declare-const pkt (Array (_ BitVec 32) (_ BitVec 8)))\n(declare-const len (_ BitVec 32))\n")
		for _, s := range []string{"srcAddr", "dstAddr", "srcPort", "dstPort"} {
			if _, used := p.syms[s]; used || strings.Contains(ref, "k_"+s) {
				b.WriteString("(declare-const k_" + s + " (_ BitVec 32))\n")
				if strings.HasSuffix(s, "Port") {
					b.WriteString("(assert (bvule k_" + s + " #x0000ffff))\n")
				}
			}
		}
		for s := range p.syms {
			if s != "srcAddr" && s != "dstAddr" && s != "srcPort" && s != "dstPort" {
				errs = append(errs, p.name+": unexpected symbolic operand "+s)
			}
		}
		// one-directional lemma for C02: every frame the reference predicate describes (hence every frame a matcher can
		// turn into a hop) is captured; a filter that accepts more than the reference is no completeness violation
		out = append(out, bpfOb{Name: "packets." + p.name + "#C02.captures", Text: "for all frames, lengths and configurations: reference predicate of the property statement ==> program accepts", Pos: p.pos,
			Query: b.String() + "(assert (and " + ref + " (not " + acc + ")))\n", Instrs: len(p.ins), Acc: acc, Ref: ref, Prop: "C02"})
		if p.name == "icmpFilter" {
			// first clause of C12 for a frame form outside the statement's own exactness clause: gopacket's IPv6 decoder folds a
			// hop-by-hop options header into the IPv6 layer, so the ICMP matchers turn "IPv6, next header 0, hop-by-hop header
			// naming ICMPv6" into a hop exactly like a plain ICMPv6 frame — the filter must therefore let it through
			hbh := "(and " + refIsIPv6 + " " + has(55) + " (= " + u8(20) + " #x00) (= " + u8(54) + " #x3a))"
			out = append(out, bpfOb{Prop: "C12", Name: "packets." + p.name + "#C12.covers.hbh", Text: "for all frames: IPv6 with a hop-by-hop options header that names ICMPv6 as next header (a form the ICMP matchers accept, the decoder folds the options header into the IPv6 layer) ==> program accepts", Pos: p.pos,
				Query: b.String() + "(assert (and " + hbh + " (not " + acc + ")))\n", Instrs: len(p.ins), Acc: acc, Ref: hbh})
		}
		b.WriteString("(assert (not (= " + acc + " " + ref + ")))\n")
		out = append(out, bpfOb{Prop: "C12", Name: "packets." + p.name + "#C12.exact", Text: "for all frames, lengths and configurations: program accepts <=> reference predicate of the property statement", Pos: p.pos, Query: b.String(), Instrs: len(p.ins), Acc: acc, Ref: ref})
	}
	return out, errs
}
