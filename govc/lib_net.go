package main

import (
	"fmt"
	"go/types"
)

// Handle typestate (C10): ghost isOpen[ref] / closeN[ref] for every OS-backed handle (net.Conn, net.Listener,
// packets.Source, packets.Sink). Library constructors open a handle; Close requires it to be open (closing twice or
// closing something never opened is a failed obligation) and counts the close.

func (ex *Exec) tsArrays(st *State) (string, string) {
	ex.registerKey("X|isOpen", arrSort(sInt, sBool))
	ex.registerKey("X|closeN", arrSort(sInt, sInt))
	return ex.heapGet(st, "X|isOpen", arrSort(sInt, sBool)), ex.heapGet(st, "X|closeN", arrSort(sInt, sInt))
}

// openHandle marks ref as an open handle under cond.
func (ex *Exec) openHandle(st *State, ref, cond string) {
	if ex.pure > 0 {
		return
	}
	op, cn := ex.tsArrays(st)
	ex.setH(st, "X|isOpen", ex.name("isopen", ite(cond, sto(op, ref, "true"), op), arrSort(sInt, sBool)))
	ex.setH(st, "X|closeN", ex.name("closen", ite(cond, sto(cn, ref, "0"), cn), arrSort(sInt, sInt)))
}

// closeHandle: obligation that the handle is open, then closes it.
func (ex *Exec) closeHandle(c *callCtx, ref, what string) {
	if ex.pure > 0 {
		return
	}
	op, cn := ex.tsArrays(c.st)
	if c.fr != nil && c.reach != nil && c.instr != nil {
		props := []string{"C10"}
		lbl := c.fr.label("typestate.close." + sanitize(what))
		ex.oblige(lbl, "nopanic", props, imp(c.r(), sel(op, ref)), ex.posOf(c.instr.Pos()), what+" closed while not open (closed twice, or never opened)")
	}
	r := c.r()
	ex.setH(c.st, "X|isOpen", ex.name("isopen", ite(r, sto(op, ref, "false"), op), arrSort(sInt, sBool)))
	ex.setH(c.st, "X|closeN", ex.name("closen", ite(r, sto(cn, ref, app("+", sel(cn, ref), "1")), cn), arrSort(sInt, sInt)))
}

func (ex *Exec) netType(pkg, name string) types.Type {
	return ex.w.pkgs[pkg].Pkg.Scope().Lookup(name).Type()
}

func init() {
	// dial: returns an open connection or an error (never both)
	dial := func(kind string, tcp bool) libFn {
		return func(c *callCtx) Val {
			ex := c.ex
			ok := ex.freshConst("dialok", sBool)
			ref := ex.alloc(c.st)
			tag := num(int64(ex.w.typeIDByName("*net." + kind + "Conn")))
			ex.openHandle(c.st, ref, and(c.r(), ok))
			ex.registerKey("X|connKind", arrSort(sInt, sInt))
			k := ex.heapGet(c.st, "X|connKind", arrSort(sInt, sInt))
			kindv := "1"
			if tcp {
				kindv = "2"
				// C20: a TCP connection attempt to the target was made
				ex.registerKey("X|tcpDialed", sBool)
				ex.setH(c.st, "X|tcpDialed", ex.name("tcpdialed", or(ex.heapGet(c.st, "X|tcpDialed", sBool), c.r()), sBool))
			}
			ex.setH(c.st, "X|connKind", ex.name("connkind", sto(k, ref, kindv), arrSort(sInt, sInt)))
			ex.advanceClock(c.st, c.r())
			e := ex.newWrappedError(c.st, nil, not(ok), "dialerr")
			return Val{L: []string{ite(ok, tag, "0"), ite(ok, ref, "0"), e.L[0], e.L[1]}}
		}
	}
	reg("net.Dial", func(c *callCtx) Val {
		// the network is a constant in this repository: "udp" (LocalAddrForHost)
		isTCP := false
		if c.cc != nil {
			if s, ok := constString(c.cc.Args[0]); ok && len(s) >= 3 && s[:3] == "tcp" {
				isTCP = true
			}
		}
		if isTCP {
			return dial("TCP", true)(c)
		}
		return dial("UDP", false)(c)
	})
	reg("(*net.Dialer).DialContext", func(c *callCtx) Val {
		ex := c.ex
		bounded := sel(ex.ctxBounded(c.st), c.args[1].L[1])
		if to, ok := ex.fieldOf(c.st, c.args[0], "Timeout"); ok {
			bounded = or(bounded, app(">", to.L[0], "0"))
		}
		c.blockingBound("net.Dialer.DialContext", bounded)
		return dial("TCP", true)(c)
	})
	reg("net.Listen", func(c *callCtx) Val {
		ex := c.ex
		ok := ex.freshConst("listenok", sBool)
		ref := ex.alloc(c.st)
		tag := num(int64(ex.w.typeIDByName("*net.TCPListener")))
		ex.openHandle(c.st, ref, and(c.r(), ok))
		e := ex.newWrappedError(c.st, nil, not(ok), "listenerr")
		return Val{L: []string{ite(ok, tag, "0"), ite(ok, ref, "0"), e.L[0], e.L[1]}}
	})
	closer := func(what string) libFn {
		return func(c *callCtx) Val {
			ex := c.ex
			ex.closeHandle(c, c.args[0].L[1], what)
			e := ex.freshVal(errorT(), c.st, "closeerr")
			ex.assumeExternalError(e)
			return e
		}
	}
	// ---- descriptor-level typestate (ghost osOpen): raw descriptors are keyed by -(fd+1), *os.File objects by their
	// reference. unix.Socket opens a descriptor, unix.Close closes it (must be open), os.NewFile hands the descriptor over
	// to a fresh file object, (*os.File).Close closes that (must be open). Separate from the interface-level isOpen/closeN.
	osArr := func(ex *Exec, st *State) string {
		ex.registerKey("X|osOpen", arrSort(sInt, sBool))
		return ex.heapGet(st, "X|osOpen", arrSort(sInt, sBool))
	}
	fdKey := func(fd string) string { return app("-", app("-", "0", fd), "1") }
	reg("golang.org/x/sys/unix.Socket", func(c *callCtx) Val {
		ex := c.ex
		fd := ex.freshVal(types.Typ[types.Int], c.st, "fd")
		e := ex.freshVal(errorT(), c.st, "sockerr")
		ex.assumeExternalError(e)
		if ex.pure == 0 {
			op := osArr(ex, c.st)
			ok := eq(e.L[0], "0")
			ex.assume(imp(ok, and(app("<=", "0", fd.L[0]), not(sel(op, fdKey(fd.L[0]))))))
			ex.setH(c.st, "X|osOpen", ex.name("osopen", ite(and(c.r(), ok), sto(op, fdKey(fd.L[0]), "true"), op), arrSort(sInt, sBool)))
		}
		ex.used["library model: unix.Socket returns a fresh open descriptor or an error (A-OS)"] = true
		return tupleVal(c.fn.Signature.Results(), []Val{fd, e})
	})
	reg("golang.org/x/sys/unix.Close", func(c *callCtx) Val {
		ex := c.ex
		e := ex.freshVal(errorT(), c.st, "closeerr")
		ex.assumeExternalError(e)
		if ex.pure == 0 {
			op := osArr(ex, c.st)
			k := fdKey(c.args[0].L[0])
			if c.fr != nil && c.reach != nil && c.instr != nil {
				ex.oblige(c.fr.label("typestate.close.fd"), "nopanic", []string{"C10"}, imp(c.r(), sel(op, k)), ex.posOf(c.instr.Pos()), "descriptor closed while not open (closed twice, handed over to a file, or never opened)")
			}
			ex.setH(c.st, "X|osOpen", ex.name("osopen", ite(c.r(), sto(op, k, "false"), op), arrSort(sInt, sBool)))
		}
		return e
	})
	reg("os.NewFile", func(c *callCtx) Val {
		ex := c.ex
		ref := ex.alloc(c.st)
		if ex.pure == 0 {
			op := osArr(ex, c.st)
			k := fdKey(c.args[0].L[0])
			// ownership of the descriptor moves to the file object
			n1 := sto(op, k, "false")
			n2 := sto(n1, ref, "true")
			ex.setH(c.st, "X|osOpen", ex.name("osopen", ite(c.r(), n2, op), arrSort(sInt, sBool)))
		}
		ex.used["library model: os.NewFile wraps a valid descriptor in a fresh non-nil *os.File that owns it (A-OS)"] = true
		return Val{T: c.fn.Signature.Results().At(0).Type(), L: []string{ref}}
	})
	reg("(*os.File).Close", func(c *callCtx) Val {
		ex := c.ex
		e := ex.freshVal(errorT(), c.st, "closeerr")
		ex.assumeExternalError(e)
		if ex.pure == 0 {
			op := osArr(ex, c.st)
			k := c.args[0].L[0]
			if c.fr != nil && c.reach != nil && c.instr != nil {
				ex.oblige(c.fr.label("typestate.close.file"), "nopanic", []string{"C10"}, imp(c.r(), sel(op, k)), ex.posOf(c.instr.Pos()), "*os.File closed while not open (closed twice)")
			}
			ex.setH(c.st, "X|osOpen", ex.name("osopen", ite(c.r(), sto(op, k, "false"), op), arrSort(sInt, sBool)))
		}
		return e
	})
	reg("net.Conn.Close", closer("net.Conn"))
	reg("net.Listener.Close", closer("net.Listener"))
	// syscall.RawConn.Control(f): f runs once on the descriptor unless the connection is already closed, in which case
	// an error is returned and f does not run; the error is the runtime's own. Results of the ghost history of Control
	// are recorded like a contract call (ncalls / lastres) so that callers can state what happens to its error.
	rawCtl := func(hname string, boolRes bool) libFn { return func(c *callCtx) Val {
		ex := c.ex
		f := c.args[1]
		e := ex.freshVal(errorT(), c.st, "ctlerr")
		ex.assumeExternalError(e)
		if f.F != nil && f.F.Fn != nil && c.fr != nil && ex.pure == 0 {
			ran := ex.name("ctlran", and(c.r(), eq(e.L[0], "0")), sBool)
			st2 := c.st.clone()
			fd := ex.freshVal(types.Typ[types.Uintptr], st2, "fd")
			rv := ex.callFn(c.fr, f.F.Fn, []Val{fd}, f.F.Bind, st2, &ran, c.instr, nil)
			if boolRes && len(rv.L) == 1 {
				// Write/Read call f until it reports completion: the state that remains is the one left by the call that returned true
				saved := ex.curReach
				ex.curReach = ran
				ex.assume(rv.L[0])
				ex.curReach = saved
			}
			m := ex.mergeStates([]string{eq(e.L[0], "0")}, []*State{st2, c.st})
			*c.st = *m
		} else if ex.pure == 0 {
			ex.havocAll(c.st, "RawConn."+hname+" with a non-static function")
		}
		if ex.pure == 0 {
			nk := "X|ncalls.RawConn."+hname
			ex.registerKey(nk, sInt)
			prev := ex.heapGet(c.st, nk, sInt)
			ex.setH(c.st, nk, ex.name("ncalls", ite(c.r(), app("+", prev, "1"), prev), sInt))
			ex.lastResTypes["RawConn."+hname+".0"] = errorT()
			for j, l := range leaves(errorT()) {
				rk := fmt.Sprintf("X|lastres.RawConn.%s.0.%d", hname, j)
				ex.registerKey(rk, l.Sort)
				pv := ex.heapGet(c.st, rk, l.Sort)
				ex.setH(c.st, rk, ex.name("lres", ite(c.r(), e.L[j], pv), l.Sort))
			}
		}
		ex.used["library model: syscall.RawConn.Control runs its argument once on success (A-OS)"] = true
		return e
	} }
	reg("syscall.RawConn.Control", rawCtl("Control", false))
	reg("syscall.RawConn.Write", rawCtl("Write", true))
	reg("syscall.RawConn.Read", rawCtl("Read", true))
	reg("net.Conn.SetDeadline", func(c *callCtx) Val {
		e := c.ex.freshVal(errorT(), c.st, "sderr")
		c.ex.assumeExternalError(e)
		return e
	})
	// LocalAddr / Addr: a fresh address object whose dynamic type follows the kind of the connection
	addrOf := func(c *callCtx, listener bool) Val {
		ex := c.ex
		udpT := types.NewPointer(ex.netType("net", "UDPAddr"))
		tcpT := types.NewPointer(ex.netType("net", "TCPAddr"))
		ref := ex.alloc(c.st)
		// contents of the address object are unconstrained (IP of length 4 or 16, any port)
		for _, t := range []types.Type{udpT, tcpT} {
			obj := ex.freshVal(t.(*types.Pointer).Elem(), c.st, "laddr")
			ex.store(c.st, Val{T: t, L: []string{ref}}, obj)
		}
		tcpTag := num(int64(ex.w.typeID(tcpT)))
		udpTag := num(int64(ex.w.typeID(udpT)))
		if listener {
			return Val{L: []string{tcpTag, ref}}
		}
		ex.registerKey("X|connKind", arrSort(sInt, sInt))
		k := sel(ex.heapGet(c.st, "X|connKind", arrSort(sInt, sInt)), c.args[0].L[1])
		return Val{L: []string{ite(eq(k, "2"), tcpTag, udpTag), ref}}
	}
	reg("net.Conn.LocalAddr", func(c *callCtx) Val { return addrOf(c, false) })
	reg("net.Listener.Addr", func(c *callCtx) Val { return addrOf(c, true) })
	pureLib["(net.IP).IsLoopback"] = true
	pureLib["net.IPv4"] = true
	pureLib["(*net.UDPAddr).String"] = true
	pureLib["(*net.TCPAddr).String"] = true
}
