package main

import (
	"encoding/json"
	"fmt"
	"os"
	"path/filepath"
	"sort"
	"strconv"
	"strings"
	"time"
)

type finding struct {
	Kind       string // finding | fixed
	Property   string
	Obligation string
	Text       string
}

func loadFindings(path string) []finding {
	b, err := os.ReadFile(path)
	if err != nil {
		return nil
	}
	var out []finding
	for _, l := range strings.Split(string(b), "\n") {
		l = strings.TrimSpace(l)
		if l == "" || strings.HasPrefix(l, "#") {
			continue
		}
		var f finding
		switch {
		case strings.HasPrefix(l, "finding:"):
			f.Kind = "finding"
			l = strings.TrimSpace(strings.TrimPrefix(l, "finding:"))
		case strings.HasPrefix(l, "fixed:"):
			f.Kind = "fixed"
			l = strings.TrimSpace(strings.TrimPrefix(l, "fixed:"))
		default:
			continue
		}
		for _, tok := range strings.Fields(l) {
			if strings.HasPrefix(tok, "property=") {
				f.Property = strings.TrimPrefix(tok, "property=")
			}
			if strings.HasPrefix(tok, "obligation=") {
				f.Obligation = strings.TrimPrefix(tok, "obligation=")
			}
		}
		f.Text = l
		out = append(out, f)
	}
	return out
}

func hasProp(ps []string, p string) bool {
	for _, x := range ps {
		if x == p {
			return true
		}
	}
	return false
}

// unitServes reports whether the unit carries a clause or safety tag for the property.
func unitServes(u *Unit, prop string) bool {
	c := u.C
	if hasProp(c.Safety, prop) {
		return true
	}
	for _, cl := range c.Ensures {
		if hasProp(cl.Props, prop) {
			return true
		}
	}
	for _, cl := range c.Requires {
		if hasProp(cl.Props, prop) {
			return true
		}
	}
	for _, cl := range c.Lemmas {
		if hasProp(cl.Props, prop) {
			return true
		}
	}
	for _, ls := range c.Loops {
		for _, cl := range ls {
			if hasProp(cl.Props, prop) {
				return true
			}
		}
	}
	for _, m := range c.Monitors {
		for _, cl := range m.Invs {
			if hasProp(cl.Props, prop) {
				return true
			}
		}
	}
	for _, ls := range c.Steps {
		for _, cl := range ls {
			if hasProp(cl.Props, prop) {
				return true
			}
		}
	}
	for _, cl := range c.Decreases {
		if hasProp(cl.Props, prop) {
			return true
		}
	}
	for _, ls := range c.Before {
		for _, cl := range ls {
			if hasProp(cl.Props, prop) {
				return true
			}
		}
	}
	for _, cl := range c.AtUnlock {
		if hasProp(cl.Props, prop) {
			return true
		}
	}
	return false
}

type evidence struct {
	PropertyID  string                 `json:"property_id"`
	Tier        string                 `json:"tier"`
	Seed        int                    `json:"seed"`
	Level       string                 `json:"level"`
	Coverage    map[string]interface{} `json:"coverage"`
	Assumptions []string               `json:"assumptions"`
	WallS       float64                `json:"wall_s"`
	Violations  int                    `json:"violations"`
}

type propMeta struct {
	Level    string
	NotProof string // explanation when level is "other"
}

var propLevels = map[string]propMeta{
	"C08": {Level: "other", NotProof: "the obligations prove that every blocking library call reached from the entry points is given a finite bound (bounded context, timeout, or read deadline); they do not prove that the run returns within the arithmetic bound of the statement (liveness, scheduler and kernel behaviour are outside what a pre/postcondition can decide)"},
}

func cmdCheck(args []string) int {
	if len(args) < 1 {
		fmt.Println("usage: govc check <property> [quick|thorough]")
		return 2
	}
	prop := args[0]
	tier := "quick"
	if len(args) > 1 {
		tier = strings.TrimPrefix(args[1], "--tier=")
	}
	if t := os.Getenv("VERIF_TIER"); t != "" && len(args) < 2 {
		tier = t
	}
	seed := 0
	if s := os.Getenv("VERIF_SEED"); s != "" {
		seed, _ = strconv.Atoi(s)
	}
	solverSeed = seed
	root := "/verif"
	if os.Getenv("GOVC_NOEVIDENCE") != "" {
		// selftest runs (seeded changes on a scratch copy) must not overwrite the evidence of the real tree
		if d, err := os.MkdirTemp("", "govc-selftest-out"); err == nil {
			root = d
			defer os.RemoveAll(d)
		}
	}
	t0 := time.Now()
	w, err := loadWorld(repoDir(), nil)
	if err != nil {
		// the tree does not build or a contract target disappeared: report as a violation of the property
		rp := writeReplay(root, prop, "load", map[string]interface{}{"obligation": "load", "error": err.Error(),
			"note": "the repository (with -tags verif) failed to load or a contract no longer resolves to a function/loop"})
		fmt.Printf("VIOLATION property=%s replay=%s no-failing-input-found\n", prop, rp)
		writeEvidence(root, prop, tier, seed, "proof", map[string]interface{}{"obligations": 0, "discharged": 0, "checker_cmd": "govc check " + prop, "trusted_base": []string{}, "load_error": err.Error()}, nil, time.Since(t0).Seconds(), 1)
		return 1
	}
	loadS := time.Since(t0).Seconds()
	all := collectUnits(w)
	byFn := map[*Contract]*Unit{}
	for _, u := range all {
		byFn[u.C] = u
	}
	// closure of units
	todo := []*Unit{}
	seen := map[*Unit]bool{}
	for _, u := range all {
		if unitServes(u, prop) {
			todo = append(todo, u)
			seen[u] = true
		}
	}
	replayDeadline = time.Now().Add(20 * time.Minute) // re-armed below, once the obligations have been decided
	opt := Options{Thorough: tier == "thorough", TimeoutMs: 15000, Seed: seed}
	if tier == "thorough" {
		opt.TimeoutMs = 60000
	}
	var results []*UnitResult
	var boundaryCut []string
	calleeOf := map[*Unit]bool{}
	for len(todo) > 0 {
		u := todo[0]
		todo = todo[1:]
		r := verifyUnit(w, u, opt)
		results = append(results, r)
		if dd := os.Getenv("GOVC_DUMPDIR"); dd != "" && r.Ex != nil {
			os.MkdirAll(dd, 0o755)
			var b strings.Builder
			b.WriteString(r.Ex.header())
			for _, it := range r.Ex.items {
				if it.Ob != nil {
					b.WriteString("; OBLIGATION " + it.Ob.Label + "\n;   " + it.Ob.Goal + "\n")
				} else {
					b.WriteString("(assert " + it.Assume + ")\n")
				}
			}
			os.WriteFile(dd+"/"+sanitize(u.Name)+".vc", []byte(b.String()), 0o644)
		}
		if r.Ex != nil && u.C.Boundary && !unitServes(u, prop) {
			boundaryCut = append(boundaryCut, u.Name)
		} else if r.Ex != nil {
			for c := range r.Ex.calledContracts {
				if cu, ok := byFn[c]; ok {
					calleeOf[cu] = true
					if !seen[cu] {
						seen[cu] = true
						todo = append(todo, cu)
					}
				}
			}
		}
	}
	sort.Slice(results, func(i, j int) bool { return results[i].Unit.Name < results[j].Unit.Name })
	findings := loadFindings("/verif/known_findings.txt")
	known := map[string]finding{}
	for _, f := range findings {
		if f.Kind == "finding" && f.Property == prop {
			known[f.Obligation] = f
		}
	}
	replayDeadline = time.Now().Add(4 * time.Minute)
	nObl, nOK, viol := 0, 0, 0
	var matched []string
	var samples []interface{}
	var fuc []interface{}
	trusted := map[string]bool{}
	loopsAnnot := 0
	coverOK, coverAll := 0, 0
	var otherFail []string
	var slow []string
	for _, r := range results {
		u := r.Unit
		if r.Refused != "" {
			viol++
			rp := writeReplay(root, prop, u.Name+"#generator", map[string]interface{}{"obligation": u.Name + "#generator", "unit": u.Name, "error": r.Refused,
				"note": "the VC generator could not bring this function within its subset; on the unchanged tree every unit is accepted, so this is reported as a failed obligation"})
			fmt.Printf("VIOLATION property=%s replay=%s no-failing-input-found\n", prop, rp)
			continue
		}
		fe := map[string]interface{}{"unit": u.Name, "ssa_instructions": r.Instrs, "obligations": len(r.Obls), "loops_with_invariants": r.LoopsAnnot, "secs": round2(r.Secs), "vacuity": r.Vacuity}
		if len(r.DeadReturns) > 0 {
			var ps []string
			for _, i := range r.DeadReturns {
				if i-1 < len(r.Ex.returnPos) {
					ps = append(ps, r.Ex.returnPos[i-1])
				}
			}
			sort.Strings(ps)
			fe["return_sites_unreachable_under_the_contracts"] = ps
		}
		fuc = append(fuc, fe)
		// a loop whose back edge is unreachable under the assumptions has a vacuous body: every obligation in it would
		// be discharged for the wrong reason (contradictory contracts). None exists on the unchanged tree.
		sort.Strings(r.DeadBack)
		for _, db := range r.DeadBack {
			viol++
			nm := u.Name + "#vacuity." + strings.ReplaceAll(strings.Fields(db)[0], " ", "")
			rp := writeReplay(root, prop, nm, map[string]interface{}{"obligation": nm, "unit": u.Name, "note": "vacuity guard: " + db + " is unreachable under the preconditions, invariants and assumed callee contracts; the obligations of that loop body would hold vacuously"})
			fmt.Printf("VIOLATION property=%s replay=%s no-failing-input-found\n", prop, rp)
		}
		loopsAnnot += r.LoopsAnnot
		coverAll++
		if r.Vacuity == "ok" {
			coverOK++
		}
		if strings.HasPrefix(r.Vacuity, "VACUOUS") {
			viol++
			rp := writeReplay(root, prop, u.Name+"#vacuity", map[string]interface{}{"obligation": u.Name + "#vacuity", "unit": u.Name, "note": r.Vacuity})
			fmt.Printf("VIOLATION property=%s replay=%s no-failing-input-found\n", prop, rp)
		}
		for _, n := range w.renames[u.C] {
			trusted[n] = true
		}
		for k := range r.Ex.used {
			if !strings.HasPrefix(k, "icmp.bodytag") {
				trusted[k] = true
			}
		}
		for _, ob := range r.Obls {
			relevant := len(ob.Props) == 0 || hasProp(ob.Props, prop) || calleeOf[u]
			if ob.ok() {
				if ob.Result.Retried {
					slow = append(slow, ob.Name)
				}
				if relevant {
					nObl++
					nOK++
					if len(samples) < 6 && hasProp(ob.Props, prop) {
						samples = append(samples, map[string]interface{}{"obligation": ob.Name, "kind": ob.Kind, "clause": ob.Text, "at": ob.Pos, "solver": ob.Result.Solver, "secs": round2(ob.Result.Secs)})
					}
				}
				continue
			}
			if !relevant {
				otherFail = append(otherFail, ob.Name)
				continue
			}
			if f, ok := known[ob.Name]; ok {
				fmt.Printf("KNOWN-FINDING: property=%s %s\n", prop, f.Text)
				matched = append(matched, ob.Name)
				continue
			}
			nObl++
			viol++
			rp, confirmed := reportFailure(root, prop, w, r, ob)
			suffix := ""
			if !confirmed {
				suffix = " no-failing-input-found"
			}
			fmt.Printf("VIOLATION property=%s replay=%s%s\n", prop, rp, suffix)
		}
	}
	// assumed contracts on functions of the repository itself (out of the verifier's reach) are tested against the real
	// function on sampled inputs: a refuted assumption is a confirmed counterexample against every proof that used it
	assumedSeen := map[*Contract]bool{}
	var conform []interface{}
	for _, r := range results {
		if r.Ex == nil {
			continue
		}
		var cs []*Contract
		for c := range r.Ex.calledContracts {
			cs = append(cs, c)
		}
		sort.Slice(cs, func(i, j int) bool { return cs[i].Name < cs[j].Name })
		for _, c := range cs {
			if !c.Trusted || c.Fn == nil || c.IfaceKey != "" || assumedSeen[c] || c.Fn.Pkg == nil || !strings.HasPrefix(c.Fn.Pkg.Pkg.Path(), w.module) {
				continue
			}
			assumedSeen[c] = true
			rep := conformAssumed(w, c)
			conform = append(conform, rep)
			if nf, ok := rep["failures"].(int); ok && nf > 0 {
				viol++
				nm := unitName(c) + "#assumed-contract"
				rp := writeReplay(root, prop, nm, map[string]interface{}{"obligation": nm, "unit": unitName(c), "replay": rep,
					"note": "the real function violates its ASSUMED contract on a sampled input (real run): every obligation discharged with this contract rests on a false lemma"})
				fmt.Printf("VIOLATION property=%s replay=%s\n", prop, rp)
			}
		}
	}
	if prop == "C12" || prop == "C02" {
		obs, errs := w.bpfObligations()
		for _, e := range errs {
			viol++
			rp := writeReplay(root, prop, "bpf-extraction", map[string]interface{}{"obligation": "packets.cbpf#extraction", "error": e,
				"note": "a cBPF program could not be read mechanically from the source or uses an opcode outside the modelled subset"})
			fmt.Printf("VIOLATION property=%s replay=%s no-failing-input-found\n", prop, rp)
		}
		for _, ob := range obs {
			if ob.Prop != prop {
				continue
			}
			nObl++
			r := solve(ob.Query, sanitize(ob.Name), opt.TimeoutMs, opt.Thorough, true)
			fuc = append(fuc, map[string]interface{}{"unit": ob.Name, "cbpf_instructions": ob.Instrs, "obligations": 1, "secs": round2(r.Secs), "logic": "QF_ABV bit-vector lemma, all frames x all configurations"})
			if r.Status == "unsat" {
				nOK++
				if len(samples) < 8 {
					samples = append(samples, map[string]interface{}{"obligation": ob.Name, "kind": "bv-lemma", "clause": ob.Text, "at": ob.Pos, "solver": r.Solver, "secs": round2(r.Secs)})
				}
				continue
			}
			if f, ok := known[ob.Name]; ok {
				nObl--
				fmt.Printf("KNOWN-FINDING: property=%s %s\n", prop, f.Text)
				matched = append(matched, ob.Name)
				continue
			}
			viol++
			content := map[string]interface{}{"obligation": ob.Name, "clause": ob.Text, "at": ob.Pos, "solver_status": r.Status, "solver": r.Solver, "solver_output": trunc(r.Output, 20000)}
			confirmed := false
			if r.Status == "sat" {
				rep := replayBPF(w, ob)
				content["replay"] = rep
				if cfm, ok := rep["confirmed"].(bool); ok && cfm {
					confirmed = true
				}
			}
			qf := filepath.Join(root, "replays", prop, sanitize(ob.Name)+".smt2")
			os.MkdirAll(filepath.Dir(qf), 0o755)
			os.WriteFile(qf, []byte("(set-option :produce-models true)\n"+ob.Query+"(check-sat)\n(get-model)\n"), 0o644)
			content["query_file"] = qf
			rp := writeReplay(root, prop, ob.Name, content)
			suffix := ""
			if !confirmed {
				suffix = " no-failing-input-found"
			}
			fmt.Printf("VIOLATION property=%s replay=%s%s\n", prop, rp, suffix)
		}
		trusted["TRUSTED: semantics of the cBPF opcodes ld/ldh/ldb (abs, ind), ldxb 4*([k]&0xf), jeq, jset, ret (out-of-range load rejects the packet)"] = true
		trusted["TRUSTED: bpf.Assemble encodes each bpf.Instruction field-wise (the lemma is stated over the instruction list read from the source)"] = true
		trusted["reference predicates transcribe the property statement; 'unfragmented' is read as fragment offset zero (the MF bit is not inspected)"] = true
	}
	if prop == "C14" {
		trusted["C14 scope: fields of parallel-capable drivers (classified over the SSA reachable from SendProbe / ReceiveProbe) and variables protected by a declared monitor; objects reached only through pointer fields are not followed; channel-based synchronisation is not recognised (sufficient discipline, not necessary)"] = true
		trusted["TRUSTED: sync.Mutex, sync/atomic and the go-cache internal lock provide mutual exclusion / atomicity"] = true
	}
	var tb []string
	for k := range trusted {
		tb = append(tb, k)
	}
	sort.Strings(tb)
	tb = append(tb, "A-SMT: z3 4.8.12 / z3 5.1.0 / cvc5 1.0.3 are sound", "A-GEN: govc's SSA-to-SMT translation is correct (mitigated by the must-fail selftest corpus and replays)",
		"A-SSA: go/ssa faithfully represents the program", "A-INT64: int/int64 arithmetic is treated as mathematical (no overflow obligations) unless a clause bounds it",
		"A-ROOTPTR: pointers stored in the heap by unverified code point to whole allocated objects", "A-APPEND: append is modelled as allocating a fresh backing array")
	backend := map[string]interface{}{}
	solverStats.Lock()
	for k, n := range solverStats.count {
		backend[k] = map[string]interface{}{"answers": n, "solver_secs": round2(solverStats.secs[k]), "max_secs": round2(solverStats.max[k])}
	}
	solverStats.Unlock()
	if len(samples) == 0 {
		samples = append(samples, "no obligation tagged "+prop+" was discharged in this run")
	}
	meta := propLevels[prop]
	level := meta.Level
	if level == "" {
		level = "proof"
	}
	cov := map[string]interface{}{
		"obligations": nObl, "discharged": nOK,
		"checker_cmd":              "/verif/bin/govc check " + prop + " " + tier + "  (VCs from go/ssa of /repo's working tree with -tags verif; one SMT query per obligation raced on z3-5.1.0 (two random seeds), cvc5-1.0.3, z3-4.8.12)",
		"trusted_base":             tb,
		"functions_under_contract": fuc,
		"loops_with_invariants":    loopsAnnot,
		"by_backend":               backend,
		"vacuity_checks":           map[string]int{"return_reachable_sat": coverOK, "units": coverAll},
		"known_findings_matched":   matched,
		"samples":                  samples,
		"load_secs":                round2(loadS),
		"closure_not_descended_below_boundary_units": boundaryCut,
		"assumed_contracts_sampled_against_the_real_function": conform,
		"failing_obligations_of_other_properties_in_shared_units": otherFail,
		"obligations_needing_the_longer_second_attempt":           slow,
	}
	if level == "other" {
		cov["explanation"] = meta.NotProof
	}
	if prop == "C14" {
		ri := w.raceAnalysis()
		cov["driver_field_classification"] = ri.report
		var gs []string
		for k := range ri.guards {
			gs = append(gs, k)
		}
		sort.Strings(gs)
		cov["contended_fields_requiring_the_mutex"] = gs
	}
	writeEvidence(root, prop, tier, seed, level, cov, tb, time.Since(t0).Seconds(), viol)
	fmt.Printf("property %s: units=%d obligations=%d discharged=%d violations=%d known=%d (%.1fs)\n", prop, len(results), nObl, nOK, viol, len(matched), time.Since(t0).Seconds())
	if nObl == 0 && viol == 0 {
		fmt.Printf("VIOLATION property=%s replay=%s no-failing-input-found\n", prop, writeReplay(root, prop, "vacuous", map[string]interface{}{"obligation": "none", "note": "no obligations were generated for this property (vacuity guard)"}))
		return 1
	}
	if viol > 0 {
		return 1
	}
	return 0
}

// replay budget of one check run (a broken tree can fail hundreds of obligations)
var replayBudget = 6
var replayDeadline = time.Now().Add(4 * time.Minute)

func round2(f float64) float64 { return float64(int(f*100+0.5)) / 100 }

func writeEvidence(root, prop, tier string, seed int, level string, cov map[string]interface{}, assumptions []string, wall float64, viol int) {
	ev := evidence{PropertyID: prop, Tier: tier, Seed: seed, Level: level, Coverage: cov, Assumptions: assumptions, WallS: round2(wall), Violations: viol}
	os.MkdirAll(filepath.Join(root, "evidence"), 0o755)
	b, _ := json.MarshalIndent(ev, "", " ")
	os.WriteFile(filepath.Join(root, "evidence", prop+".json"), b, 0o644)
}

func writeReplay(root, prop, name string, content map[string]interface{}) string {
	dir := filepath.Join(root, "replays", prop)
	os.MkdirAll(dir, 0o755)
	f := filepath.Join(dir, sanitize(name)+".json")
	content["property"] = prop
	b, _ := json.MarshalIndent(content, "", " ")
	os.WriteFile(f, b, 0o644)
	return f
}

// reportFailure writes the replay file of a failed obligation and tries to confirm it on the real code.
func reportFailure(root, prop string, w *World, r *UnitResult, ob *Obligation) (string, bool) {
	content := map[string]interface{}{
		"obligation": ob.Name, "unit": ob.Unit, "label": ob.Label, "kind": ob.Kind, "clause": ob.Text, "at": ob.Pos,
	}
	confirmed := false
	if ob.Result != nil {
		content["solver_status"] = ob.Result.Status
		content["solver"] = ob.Result.Solver
		content["answers"] = ob.Result.Answers
		out := ob.Result.Output
		if len(out) > 20000 {
			out = out[:20000] + "\n...[truncated]"
		}
		content["solver_output"] = out
		if ob.Result.Status == "sat" {
			var rep map[string]interface{}
			if replayBudget > 0 && time.Now().Before(replayDeadline) {
				replayBudget--
				rep = replayModel(w, r, ob)
			} else {
				rep = map[string]interface{}{"confirmed": false, "note": "not replayed: the per-run replay budget (6 attempts / 4 minutes) was used up by earlier failing obligations of this run"}
			}
			content["replay"] = rep
			if c, ok := rep["confirmed"].(bool); ok && c {
				confirmed = true
			}
		}
	}
	qf := filepath.Join(root, "replays", prop, sanitize(ob.Name)+".smt2")
	os.MkdirAll(filepath.Dir(qf), 0o755)
	os.WriteFile(qf, []byte("(set-option :produce-models true)\n"+r.Ex.queryFor(ob)+"(check-sat)\n(get-model)\n"), 0o644)
	content["query_file"] = qf
	return writeReplay(root, prop, ob.Name, content), confirmed
}
