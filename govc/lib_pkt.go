package main

import (
	"fmt"
	"go/types"
	"strings"
)

// inlinePkgs: dependency packages whose (small, loop-light) functions are executed from their real
// source in the module cache instead of being assumed. Loops in them are cut with the default invariant.
var inlinePkgs = map[string]bool{
	"github.com/google/gopacket/layers": true,
}

func init() {
	be := func(n int) libFn {
		return func(c *callCtx) Val {
			b := c.args[1]
			c.safety(app("<=", num(int64(n)), b.L[2]), "binary.BigEndian read: slice too short")
			return scalar(types.Typ[types.Uint64], c.ex.beN(c.st, b, "0", n))
		}
	}
	reg("(encoding/binary.bigEndian).Uint16", be(2))
	reg("(encoding/binary.bigEndian).Uint32", be(4))
	reg("(encoding/binary.bigEndian).Uint64", be(8))
	put := func(n int) libFn {
		return func(c *callCtx) Val {
			ex := c.ex
			b := c.args[1]
			v := c.args[2].L[0]
			c.safety(app("<=", num(int64(n)), b.L[2]), "binary.BigEndian write: slice too short")
			key, srt := ex.byteKey()
			h := ex.heapGet(c.st, key, srt)
			row := sel(h, b.L[0])
			for k := 0; k < n; k++ {
				row = sto(row, at(b.L[1], num(int64(k))), byteOf(v, uint(8*(n-1-k))))
			}
			ex.heapSet(c.st, key, srt, sto(h, b.L[0], row))
			return Val{}
		}
	}
	reg("(encoding/binary.bigEndian).PutUint16", put(2))
	reg("(encoding/binary.bigEndian).PutUint32", put(4))
	reg("(encoding/binary.bigEndian).PutUint64", put(8))

	// golang.org/x/net/bpf.Assemble (x/net bpf/asm.go): encodes each instruction in place — on success the raw program has
	// exactly as many instructions as the input; no tracked state is touched (assumed)
	reg("golang.org/x/net/bpf.Assemble", func(c *callCtx) Val {
		ex := c.ex
		in := c.args[0]
		res := c.fn.Signature.Results()
		raw := ex.freshVal(res.At(0).Type(), c.st, "bpfraw")
		e := ex.freshVal(errorT(), c.st, "bpferr")
		ex.assumeExternalError(e)
		if ex.pure == 0 {
			ex.assume(imp(eq(e.L[0], "0"), and(eq(raw.L[2], in.L[2]), not(eq(raw.L[0], "0")))))
			ex.assume(imp(not(eq(e.L[0], "0")), eq(raw.L[0], "0")))
		}
		ex.used["library model: bpf.Assemble returns a program of the input's length or an error (x/net bpf/asm.go)"] = true
		return tupleVal(res, []Val{raw, e})
	})
	reg("github.com/google/gopacket.DecodeFeedback.SetTruncated", func(c *callCtx) Val { return Val{} })
	layerTypeOf := func(c *callCtx) Val {
		// LayerType() of a network layer held in an interface: determined by its dynamic type
		ex := c.ex
		lp := ex.w.pkgs["github.com/google/gopacket/layers"]
		t4 := num(int64(ex.w.typeID(types.NewPointer(lp.Pkg.Scope().Lookup("IPv4").Type()))))
		t6 := num(int64(ex.w.typeID(types.NewPointer(lp.Pkg.Scope().Lookup("IPv6").Type()))))
		other := ex.freshConst("layertype", sInt)
		return intVal(ite(eq(c.args[0].L[0], t4), "20", ite(eq(c.args[0].L[0], t6), "21", other)))
	}
	reg("github.com/google/gopacket.NetworkLayer.LayerType", layerTypeOf)
	reg("github.com/google/gopacket.Layer.LayerType", layerTypeOf)
	reg("(golang.org/x/net/ipv4.ICMPType).Protocol", func(c *callCtx) Val { return intVal("1") })
	reg("(golang.org/x/net/ipv6.ICMPType).Protocol", func(c *callCtx) Val { return intVal("58") })

	// DecodingLayerParser.DecodeLayers (assumed decoder contract, DESIGN §5.3): it may write the decoding layers
	// registered with the parser — in this program the embedded layers of a packets.FrameParser or locals of the
	// caller — the *decoded slice and the parser's own fields. Decoded field values are left unconstrained here;
	// properties are stated over the decoded fields.
	reg("(*github.com/google/gopacket.DecodingLayerParser).DecodeLayers", func(c *callCtx) Val {
		ex := c.ex
		ex.used["ASSUMED decoder contract: DecodingLayerParser.DecodeLayers writes only registered layers, *decoded and itself; never panics (recover inside gopacket); an IP layer's two address slices are set together to 4 (IPv4) / 16 (IPv6) bytes"] = true
		if ex.pure > 0 {
			return ex.freshVal(errorT(), c.st, "declayers")
		}
		top := ex.freshConst("top", sInt)
		ex.assume(app("<=", c.st.Top, top))
		c.st.Top = top
		// havoc every FrameParser layer field (type level) and all layer objects of gopacket types allocated locally
		fp := ex.w.pkgs[ex.w.module+"/packets"]
		if fp != nil {
			if o := fp.Pkg.Scope().Lookup("FrameParser"); o != nil {
				t := o.Type()
				for _, l := range leaves(t) {
					for _, pre := range []string{"IP4", "IP6", "TCP", "ICMP4", "ICMP6", "Payload"} {
						if l.Name == pre || strings.HasPrefix(l.Name, pre+".") {
							key := "F|" + typeKey(t) + "|" + l.Name
							srt := heapKeySort("F", l.Sort, "")
							ex.registerKey(key, srt)
							if l.Kind == kRef || l.Kind == kSlArr {
								refLeafKeys[key] = true
							}
							nh := ex.freshConst("dec", srt)
							if wf := wfFact(key, nh, top); wf != "" {
								ex.assume(wf)
							}
							ex.heapSet(c.st, key, srt, nh)
						}
					}
				}
			}
		}
		// decoder contract (gopacket ip4.go / ip6.go): the two address slices of an IP layer are set together, to the 4
		// (IPv4) or 16 (IPv6) header bytes; a layer that was never decoded keeps its nil slices
		if fp != nil {
			if o := fp.Pkg.Scope().Lookup("FrameParser"); o != nil {
				t := o.Type()
				lenOf := func(leaf string) string {
					key := "F|" + typeKey(t) + "|" + leaf
					srt := heapKeySort("F", sInt, "")
					ex.registerKey(key, srt)
					return ex.heapGet(c.st, key, srt)
				}
				for _, f := range []struct {
					pre string
					n   string
				}{{"IP4", "4"}, {"IP6", "16"}} {
					sl, dl := lenOf(f.pre+".SrcIP.len"), lenOf(f.pre+".DstIP.len")
					ex.assume("(forall ((r!w Int)) (! (and (= (select " + sl + " r!w) (select " + dl + " r!w)) (or (= (select " + sl + " r!w) 0) (= (select " + sl + " r!w) " + f.n + "))) :pattern ((select " + sl + " r!w))))")
				}
			}
		}
		for _, k := range sortedKeys(ex.keySort) {
			srt := ex.keySort[k]
			if strings.HasPrefix(k, "F|github.com/google/gopacket/layers.") || strings.HasPrefix(k, "F|github.com/google/gopacket.DecodingLayerParser|") {
				nh := ex.freshConst("dec", srt)
				if wf := wfFact(k, nh, top); wf != "" {
					ex.assume(wf)
				}
				ex.heapSet(c.st, k, srt, nh)
			}
		}
		// *decoded
		dec := c.args[2]
		nv := ex.freshVal(dec.T.Underlying().(*types.Pointer).Elem(), c.st, "decoded")
		ex.store(c.st, dec, nv)
		// element type of decoded is an integer layer type: contents unconstrained (fresh backing array is not needed)
		res := ex.freshVal(errorT(), c.st, "declayers")
		// the error is either nil, UnsupportedLayerType, or an error produced by a decoder (external)
		var cs []string
		for _, t := range ex.w.errTypes {
			cs = append(cs, not(ex.chainTerm(res, ex.w.typeID(t))), not(eq(res.L[0], num(int64(ex.w.typeID(t))))))
		}
		ex.assume(and(cs...))
		// history of the call (ncalls(DecodeLayers) / lastres(DecodeLayers, 0)), so that callers can say what they do with
		// each outcome of the decoder
		nk := "X|ncalls.DecodeLayers"
		ex.registerKey(nk, sInt)
		prev := ex.heapGet(c.st, nk, sInt)
		ex.setH(c.st, nk, ex.name("ncalls", ite(c.r(), app("+", prev, "1"), prev), sInt))
		ex.lastResTypes["DecodeLayers.0"] = errorT()
		for j, l := range leaves(errorT()) {
			rk := fmt.Sprintf("X|lastres.DecodeLayers.0.%d", j)
			ex.registerKey(rk, l.Sort)
			pv := ex.heapGet(c.st, rk, l.Sort)
			ex.setH(c.st, rk, ex.name("lres", ite(c.r(), res.L[j], pv), l.Sort))
		}
		return res
	})

	// golang.org/x/net/icmp.ParseMessage (assumed libspec, from message.go/echo.go of x/net v0.49.0):
	// error iff the message is shorter than 4 bytes, the protocol is unknown, or the body parser fails;
	// for echo / echo reply the body is *icmp.Echo{ID: be16(b[4:6]), Seq: be16(b[6:8])} and fails iff len(b) < 8.
	reg("golang.org/x/net/icmp.ParseMessage", func(c *callCtx) Val {
		ex := c.ex
		ex.used["ASSUMED libspec: x/net icmp.ParseMessage (echo body = be16 at 4 and 6)"] = true
		proto := c.args[0].L[0]
		b := c.args[1]
		icmpPkg := ex.w.pkgs["golang.org/x/net/icmp"]
		msgT := icmpPkg.Pkg.Scope().Lookup("Message").Type()
		echoT := icmpPkg.Pkg.Scope().Lookup("Echo").Type()
		typ := ex.beN(c.st, b, "0", 1)
		ex.declareFun("icmp.bodyerr", []string{arrSort(sInt, sInt), sInt, sInt, sInt}, sBool)
		ex.declareFun("icmp.bodytag", []string{sInt, sInt}, sInt)
		key, srt := ex.byteKey()
		row := sel(ex.heapGet(c.st, key, srt), b.L[0])
		isEcho4 := and(eq(proto, "1"), or(eq(typ, "8"), eq(typ, "0")))
		isEcho6 := and(eq(proto, "58"), or(eq(typ, "128"), eq(typ, "129")))
		isEcho := or(isEcho4, isEcho6)
		failed := or(app("<", b.L[2], "4"), not(or(eq(proto, "1"), eq(proto, "58"))),
			ite(isEcho, app("<", b.L[2], "8"), app("icmp.bodyerr", row, b.L[1], b.L[2], proto)))
		failed = ex.name("pmfail", failed, sBool)
		// message object
		mref := ex.alloc(c.st)
		mp := Val{T: types.NewPointer(msgT), L: []string{mref}}
		ex.store(c.st, mp, zeroVal(msgT))
		eref := ex.alloc(c.st)
		ep := Val{T: types.NewPointer(echoT), L: []string{eref}}
		ev := zeroVal(echoT)
		est := echoT.Underlying().(*types.Struct)
		for i := 0; i < est.NumFields(); i++ {
			lo, _ := fieldRange(echoT, i)
			switch est.Field(i).Name() {
			case "ID":
				ev.L[lo] = ex.beN(c.st, b, "4", 2)
			case "Seq":
				ev.L[lo] = ex.beN(c.st, b, "6", 2)
			}
		}
		ex.store(c.st, ep, ev)
		mst := msgT.Underlying().(*types.Struct)
		for i := 0; i < mst.NumFields(); i++ {
			if mst.Field(i).Name() == "Body" {
				np := &PtrInfo{Kind: pkObj, Root: msgT, Path: []int{i}}
				echoTag := num(int64(ex.w.typeID(types.NewPointer(echoT))))
				otherTag := app("icmp.bodytag", proto, typ)
				if !ex.used["icmp.bodytag axiom"] {
					ex.used["icmp.bodytag axiom"] = true
					ex.preAssume = append(ex.preAssume, "(forall ((p!b Int) (t!b Int)) (! (and (not (= (icmp.bodytag p!b t!b) "+echoTag+")) (< 0 (icmp.bodytag p!b t!b))) :pattern ((icmp.bodytag p!b t!b))))")
				}
				body := Val{T: mst.Field(i).Type(), L: []string{ite(isEcho, echoTag, otherTag), ite(isEcho, eref, "0")}}
				ex.store(c.st, Val{T: types.NewPointer(mst.Field(i).Type()), L: []string{mref}, P: np}, body)
			}
		}
		errv := ex.newWrappedError(c.st, nil, failed, "pmerr")
		return Val{L: []string{ite(failed, "0", mref), errv.L[0], errv.L[1]}}
	})
}

// (*layers.IPv6).DecodeFromBytes — ASSUMED decoder contract transcribed from gopacket v1.1.19 layers/ip6.go:
// fixed-header fields are the big-endian bytes at the RFC 8200 offsets; without a hop-by-hop header the payload is
// data[40:40+min(Length, len(data)-40)] and Length == 0 is an error; with a hop-by-hop header (NextHeader 0) the
// outcome is left unconstrained (error or a payload that is some window of data[40:]). No panic is assumed.
func init() {
	reg("(*github.com/google/gopacket/layers.IPv6).DecodeFromBytes", func(c *callCtx) Val {
		ex := c.ex
		ex.used["ASSUMED decoder contract: layers.IPv6.DecodeFromBytes (fields = bytes at RFC 8200 offsets; hop-by-hop outcome unconstrained; no panic)"] = true
		p := c.args[0]
		data := c.args[1]
		t := derefType(p.T)
		st := t.Underlying().(*types.Struct)
		n := data.L[2]
		short := app("<", n, "40")
		nh := ex.beN(c.st, data, "6", 1)
		length := ex.beN(c.st, data, "4", 2)
		isHbh := eq(nh, "0")
		hbhErr := ex.freshConst("ip6hbherr", sBool)
		failed := ex.name("ip6fail", or(short, ite(isHbh, hbhErr, eq(length, "0"))), sBool)
		set := func(field string, v Val) {
			for i := 0; i < st.NumFields(); i++ {
				if st.Field(i).Name() == field {
					pi := ptrInfoOf(p)
					np := *pi
					np.Path = append(append([]int{}, pi.Path...), i)
					fp := Val{T: types.NewPointer(st.Field(i).Type()), L: p.L, P: &np}
					old := ex.load(c.st, fp)
					nv := Val{T: old.T, L: make([]string, len(old.L))}
					for j := range old.L {
						// on the too-short error path nothing is written
						nv.L[j] = ite(short, old.L[j], v.L[j])
					}
					ex.store(c.st, fp, nv)
					return
				}
			}
			panic(unsupported("layers.IPv6 has no field " + field))
		}
		sub := func(lo, hi string) Val {
			return sliceVal(types.NewSlice(types.Typ[types.Byte]), data.L[0], app("+", data.L[1], lo), app("-", hi, lo), app("-", data.L[3], lo))
		}
		set("Version", scalar(types.Typ[types.Uint8], app("div", ex.beN(c.st, data, "0", 1), "16")))
		set("Length", scalar(types.Typ[types.Uint16], length))
		set("NextHeader", scalar(types.Typ[types.Uint8], nh))
		set("HopLimit", scalar(types.Typ[types.Uint8], ex.beN(c.st, data, "7", 1)))
		set("SrcIP", sub("8", "24"))
		set("DstIP", sub("24", "40"))
		tc := ex.freshConst("ip6tc", sInt)
		fl := ex.freshConst("ip6fl", sInt)
		ex.assume(and(app("<=", "0", tc), app("<=", tc, "255"), app("<=", "0", fl), app("<=", fl, "1048575")))
		set("TrafficClass", scalar(types.Typ[types.Uint8], tc))
		set("FlowLabel", scalar(types.Typ[types.Uint32], fl))
		// payload window
		avail := app("-", n, "40")
		plen := ite(app("<", length, avail), length, avail)
		hlo := ex.freshConst("ip6plo", sInt)
		hhi := ex.freshConst("ip6phi", sInt)
		ex.assume(imp(not(short), and(app("<=", "40", hlo), app("<=", hlo, hhi), app("<=", hhi, n))))
		lo := ite(isHbh, hlo, "40")
		hi := ite(isHbh, hhi, app("+", "40", plen))
		// BaseLayer{Contents, Payload}
		for i := 0; i < st.NumFields(); i++ {
			if st.Field(i).Name() == "BaseLayer" {
				bl := st.Field(i).Type()
				v := zeroVal(bl)
				clo, _ := fieldRange(bl, 0)
				plo, _ := fieldRange(bl, 1)
				copy(v.L[clo:clo+4], sub("0", "40").L)
				copy(v.L[plo:plo+4], sub(lo, hi).L)
				set("BaseLayer", v)
			}
		}
		hb := ex.alloc(c.st)
		for i := 0; i < st.NumFields(); i++ {
			if st.Field(i).Name() == "HopByHop" {
				set("HopByHop", Val{T: st.Field(i).Type(), L: []string{ite(and(isHbh, not(failed)), hb, "0")}})
			}
		}
		return ex.newWrappedError(c.st, nil, failed, "ip6err")
	})
}
