package main

import (
	"bytes"
	"context"
	"fmt"
	"os"
	"os/exec"
	"path/filepath"
	"strings"
	"sync"
	"time"
)

type SolveResult struct {
	Status  string // unsat, sat, unknown, timeout, error
	Solver  string
	Secs    float64
	Model   string
	Output  string
	Query   string // path of the query file (kept on failure)
	Batch   bool
	Answers map[string]string // per solver status (thorough)
	Candidate bool // Model comes from the weakened (quantifier-free) query
	Retried   bool // needed the second, longer attempt
}

type solverSpec struct {
	name string
	args func(file string, timeoutMs int) []string
	prep func(q string) string
}

// solverSeed (VERIF_SEED, or the stability tool) is handed to every solver as its random seed: 0 = the solvers' defaults.
var solverSeed int

func z3Seed() []string {
	if solverSeed == 0 {
		return nil
	}
	return []string{fmt.Sprintf("smt.random_seed=%d", solverSeed), fmt.Sprintf("sat.random_seed=%d", solverSeed)}
}

var solvers = []solverSpec{
	{"z3-5.1.0", func(f string, t int) []string {
		return append(append([]string{"z3-new", "-smt2", fmt.Sprintf("-t:%d", t)}, z3Seed()...), f)
	}, func(q string) string { return q }},
	{"cvc5-1.0.3", func(f string, t int) []string {
		a := []string{"cvc5", "--lang=smt2", fmt.Sprintf("--tlimit=%d", t), "--full-saturate-quant"}
		if solverSeed != 0 {
			a = append(a, fmt.Sprintf("--seed=%d", solverSeed))
		}
		return append(a, f)
	}, func(q string) string { return "(set-logic ALL)\n" + q }},
	{"z3-4.8.12", func(f string, t int) []string {
		return append(append([]string{"z3", "-smt2", fmt.Sprintf("-t:%d", t)}, z3Seed()...), f)
	}, func(q string) string { return q }},
	// a second z3 5.1.0 with another random seed: quantifier instantiation order is seed sensitive (one obligation needed
	// 0.5-2 s under seven seeds and did not finish in 40 s under the eighth), so the portfolio carries two draws
	{"z3-5.1.0-altseed", func(f string, t int) []string {
		alt := 7919 + 31*solverSeed
		return []string{"z3-new", "-smt2", fmt.Sprintf("-t:%d", t), fmt.Sprintf("smt.random_seed=%d", alt), fmt.Sprintf("sat.random_seed=%d", alt), f}
	}, func(q string) string { return q }},
}

var tmpDir string
var tmpOnce sync.Once

func scratch() string {
	tmpOnce.Do(func() {
		d, err := os.MkdirTemp("", "govc-")
		if err != nil {
			panic(err)
		}
		tmpDir = d
	})
	return tmpDir
}

func cleanupScratch() {
	if tmpDir != "" {
		os.RemoveAll(tmpDir)
	}
}

var solveSem = make(chan struct{}, 5)
var solverStats = struct {
	sync.Mutex
	count map[string]int
	secs  map[string]float64
	max   map[string]float64
}{count: map[string]int{}, secs: map[string]float64{}, max: map[string]float64{}}

func runOne(ctx context.Context, sp solverSpec, query string, id string, timeoutMs int) (string, string, float64) {
	file := filepath.Join(scratch(), fmt.Sprintf("%s.%s.smt2", id, sp.name))
	if err := os.WriteFile(file, []byte(sp.prep(query)), 0o644); err != nil {
		return "error", err.Error(), 0
	}
	args := sp.args(file, timeoutMs)
	cctx, cancel := context.WithTimeout(ctx, time.Duration(timeoutMs+2000)*time.Millisecond)
	defer cancel()
	cmd := exec.CommandContext(cctx, args[0], args[1:]...)
	var out bytes.Buffer
	cmd.Stdout = &out
	cmd.Stderr = &out
	t0 := time.Now()
	_ = cmd.Run()
	secs := time.Since(t0).Seconds()
	os.Remove(file)
	text := out.String()
	first := ""
	for _, ln := range strings.Split(text, "\n") {
		ln = strings.TrimSpace(ln)
		if ln == "sat" || ln == "unsat" || ln == "unknown" {
			first = ln
			break
		}
		if strings.HasPrefix(ln, "(error") {
			break
		}
	}
	switch first {
	case "sat", "unsat", "unknown":
	default:
		if strings.Contains(text, "timeout") || cctx.Err() != nil {
			first = "timeout"
		} else if ctx.Err() != nil {
			first = "cancelled"
		} else {
			first = "error"
		}
	}
	return first, text, secs
}

// solveCover answers a reachability (cover) query with one solver only: covers are advisory vacuity guards and there are
// several per unit, so racing three solvers on each tripled the process count for nothing.
func solveCover(query, id string, timeoutMs int) *SolveResult {
	solveSem <- struct{}{}
	defer func() { <-solveSem }()
	q := "(set-option :produce-models true)\n" + query + "(check-sat)\n"
	st, out, secs := runOne(context.Background(), solvers[0], q, id, timeoutMs)
	return &SolveResult{Status: st, Solver: solvers[0].name, Secs: secs, Output: out, Answers: map[string]string{solvers[0].name: st}}
}

// solve races the solvers on one query. In thorough mode all answers are collected.
func solve(query, id string, timeoutMs int, thorough bool, wantModel bool) *SolveResult {
	solveSem <- struct{}{}
	defer func() { <-solveSem }()
	q := "(set-option :produce-models true)\n" + query + "(check-sat)\n"
	if wantModel {
		q += "(get-model)\n"
	}
	ctx, cancel := context.WithCancel(context.Background())
	defer cancel()
	type ans struct {
		sp     solverSpec
		status string
		out    string
		secs   float64
	}
	ch := make(chan ans, len(solvers))
	for _, sp := range solvers {
		sp := sp
		go func() {
			s, o, t := runOne(ctx, sp, q, id, timeoutMs)
			ch <- ans{sp, s, o, t}
		}()
	}
	res := &SolveResult{Status: "unknown", Answers: map[string]string{}}
	var best *ans
	for range solvers {
		a := <-ch
		res.Answers[a.sp.name] = a.status
		if a.status == "unsat" || a.status == "sat" {
			solverStats.Lock()
			solverStats.count[a.sp.name]++
			solverStats.secs[a.sp.name] += a.secs
			if a.secs > solverStats.max[a.sp.name] {
				solverStats.max[a.sp.name] = a.secs
			}
			solverStats.Unlock()
		}
		if best == nil && (a.status == "unsat" || a.status == "sat") {
			aa := a
			best = &aa
			if !thorough {
				cancel()
				break
			}
		}
		if best != nil && best.status != a.status && (a.status == "unsat" || a.status == "sat") {
			res.Status = "disagreement"
			res.Output = fmt.Sprintf("%s says %s, %s says %s", best.sp.name, best.status, a.sp.name, a.status)
			return res
		}
	}
	if best != nil {
		res.Status = best.status
		res.Solver = best.sp.name
		res.Secs = best.secs
		res.Output = best.out
		if best.status == "sat" {
			if i := strings.Index(best.out, "\n"); i >= 0 {
				res.Model = best.out[i+1:]
			}
		}
		if thorough && best.status == "unsat" {
			n := 0
			fam := map[string]bool{}
			for name, s := range res.Answers {
				// the two z3 5.1.0 draws are one solver for the agreement rule
				f := strings.TrimSuffix(name, "-altseed")
				if s == "unsat" && !fam[f] {
					fam[f] = true
					n++
				}
			}
			if n < 2 {
				res.Status = "unsat-single"
			}
		}
		return res
	}
	// no definitive answer
	all := []string{}
	for k, v := range res.Answers {
		all = append(all, k+"="+v)
	}
	res.Output = strings.Join(all, " ")
	tmo := false
	for _, v := range res.Answers {
		if v == "timeout" {
			tmo = true
		}
	}
	if tmo {
		res.Status = "timeout"
	}
	return res
}

// ---------------------------------------------------------------- query construction

func (ex *Exec) header() string {
	var b strings.Builder
	b.WriteString("(declare-sort Str 0)\n")
	for _, d := range ex.decls {
		b.WriteString(d)
		b.WriteByte('\n')
	}
	for _, p := range ex.preamble {
		b.WriteString(p)
		b.WriteByte('\n')
	}
	if ds := ex.distinctStrings(); ds != "true" {
		b.WriteString("(assert " + ds + ")\n")
	}
	for _, a := range ex.preAssume {
		b.WriteString("(assert " + a + ")\n")
	}
	return b.String()
}

func (ex *Exec) prefix(n int) string {
	var b strings.Builder
	for _, it := range ex.items[:n] {
		if it.Ob != nil {
			if it.Ob.ExpectSat || it.Ob.Kind == "ensures" || it.Ob.Kind == "frame" {
				// postconditions are proved independently of each other
				continue
			}
			b.WriteString("(assert " + it.Ob.Goal + ")\n")
		} else {
			b.WriteString("(assert " + it.Assume + ")\n")
		}
	}
	return b.String()
}

// queryFor builds the refutation query of a single obligation.
func (ex *Exec) queryFor(ob *Obligation) string {
	return ex.header() + ex.prefix(ob.Index) + "(assert (not " + ob.Goal + "))\n"
}

// modelQuery weakens a query so that solvers can answer sat: the index function becomes a macro and
// every universally quantified assumption is dropped. A model of the weaker query is only a candidate
// counterexample; it counts only after it has been replayed on the real code.
func modelQuery(q string) string {
	var b strings.Builder
	for _, ln := range strings.Split(q, "\n") {
		if strings.HasPrefix(ln, "(assert (forall ") {
			continue
		}
		b.WriteString(ln)
		b.WriteByte('\n')
	}
	return b.String()
}

// batchQuery proves all obligations with item index in [lo,hi) at once (nested weakest-precondition form).
func (ex *Exec) batchQuery(lo, hi int) string {
	acc := "true"
	for i := hi - 1; i >= lo; i-- {
		it := ex.items[i]
		if it.Ob != nil {
			if it.Ob.ExpectSat {
				continue
			}
			acc = and(it.Ob.Goal, acc)
		} else {
			acc = imp(it.Assume, acc)
		}
	}
	return ex.header() + ex.prefix(lo) + "(assert (not " + acc + "))\n"
}
