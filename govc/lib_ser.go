package main

import (
	"go/types"
	"strings"
)

// gopacket.SerializeLayers (ASSUMED libspec): produces the bytes of the given layers; with FixLengths and
// ComputeChecksums it fills in correct lengths and checksums provided every transport layer was given its network
// layer with SetNetworkLayerForChecksum. The arithmetic is not modelled. What IS checked is what the repository
// hands to the serializer: the handler records the header fields of the layers, the two options and whether the
// pseudo-header was registered into ghost variables ser.* that SendProbe / packet-builder contracts talk about.

var serBoolGhosts = map[string]bool{"ser.fix": true, "ser.csum": true, "ser.pseudo": true, "ser.syn": true, "ser.ack": true, "ser.psh": true, "ser.rst": true, "ser.fin": true, "ser.df": true}

func serGhostSort(name string) string {
	if serBoolGhosts[name] {
		return sBool
	}
	return sInt
}

func (ex *Exec) setGhost(st *State, name, term string) {
	key := "X|" + name
	srt := serGhostSort(name)
	ex.registerKey(key, srt)
	ex.setH(st, key, ex.name("g", term, srt))
}

// fieldOf loads field `name` (possibly promoted through embedded structs) of the struct pointed to by p.
func (ex *Exec) fieldOf(st *State, p Val, name string) (Val, bool) {
	obj, _, _ := types.LookupFieldOrMethod(p.T, true, derefNamedPkg(p.T), name)
	if _, ok := obj.(*types.Var); !ok {
		return Val{}, false
	}
	ok := true
	v := ex.selectField(st, p, name, nil, func(string) { ok = false })
	return v, ok
}

func init() {
	reg("github.com/google/gopacket.SerializeLayers", func(c *callCtx) Val {
		ex := c.ex
		ex.used["ASSUMED libspec: gopacket.SerializeLayers (lengths/checksum arithmetic not modelled; inputs recorded as ghost ser.*)"] = true
		if ex.pure > 0 {
			return ex.freshVal(errorT(), c.st, "sererr")
		}
		st := c.st
		opts := c.args[1]
		ls := c.args[2]
		ot := opts.T.Underlying().(*types.Struct)
		for i := 0; i < ot.NumFields(); i++ {
			lo, _ := fieldRange(opts.T, i)
			switch ot.Field(i).Name() {
			case "FixLengths":
				ex.setGhost(st, "ser.fix", opts.L[lo])
			case "ComputeChecksums":
				ex.setGhost(st, "ser.csum", opts.L[lo])
			}
		}
		// count calls
		ex.registerKey("X|ser.n", sInt)
		ex.setGhost(st, "ser.n", app("+", ex.heapGet(st, "X|ser.n", sInt), "1"))
		n, ok := isConstTerm(ls.L[2])
		if !ok || !n.IsInt64() || n.Int64() > 6 {
			ex.used["gopacket.SerializeLayers with a dynamic layer list: inputs not recorded"] = true
			return ex.freshVal(errorT(), st, "sererr")
		}
		layersPkg := ex.w.pkgs["github.com/google/gopacket/layers"]
		tagOf := func(name string) string {
			return num(int64(ex.w.typeID(types.NewPointer(layersPkg.Pkg.Scope().Lookup(name).Type()))))
		}
		pseudo := "true"
		minlen := "0"
		hdr := map[string]int64{"IPv4": 20, "IPv6": 40, "UDP": 8, "TCP": 20, "ICMPv4": 8, "ICMPv6": 4}
		for i := int64(0); i < n.Int64(); i++ {
			e := ex.sliceLoad(st, ls, num(i)) // interface value (tag, ref)
			for _, lt := range []string{"IPv4", "IPv6", "UDP", "TCP", "ICMPv4", "ICMPv6"} {
				is := eq(e.L[0], tagOf(lt))
				if is == "false" || !strings.Contains(is, "=") && is != "true" {
					continue
				}
				// the tag is a constant for layers built in place: skip impossible cases
				if c1, ok1 := isConstTerm(e.L[0]); ok1 {
					if c2, _ := isConstTerm(tagOf(lt)); c2 != nil && c1.Cmp(c2) != 0 {
						continue
					}
				}
				minlen = app("+", minlen, ite(is, num(hdr[lt]), "0"))
				p := Val{T: types.NewPointer(layersPkg.Pkg.Scope().Lookup(lt).Type()), L: []string{e.L[1]}}
				rec := func(ghost, field string) {
					v, ok := ex.fieldOf(st, p, field)
					if !ok {
						return
					}
					key := "X|" + ghost
					srt := serGhostSort(ghost)
					ex.registerKey(key, srt)
					prev := ex.heapGet(st, key, srt)
					ex.setH(st, key, ex.name("g", ite(is, v.L[0], prev), srt))
				}
				recAddr := func(ghost, field string) {
					v, ok := ex.fieldOf(st, p, field)
					if !ok {
						return
					}
					a, aok := ex.addrFromSlice(st, v)
					a = unmap(a)
					for j, comp := range []string{"hi", "lo", "z"} {
						key := "X|" + ghost + "." + comp
						ex.registerKey(key, sInt)
						prev := ex.heapGet(st, key, sInt)
						ex.setH(st, key, ex.name("g", ite(is, ite(aok, a.L[j], "0"), prev), sInt))
					}
				}
				switch lt {
				case "IPv4":
					rec("ser.ttl", "TTL")
					rec("ser.ipid", "Id")
					rec("ser.version", "Version")
					rec("ser.proto", "Protocol")
					rec("ser.ipflags", "Flags")
					recAddr("ser.src", "SrcIP")
					recAddr("ser.dst", "DstIP")
				case "IPv6":
					rec("ser.ttl", "HopLimit")
					rec("ser.version", "Version")
					rec("ser.proto", "NextHeader")
					recAddr("ser.src", "SrcIP")
					recAddr("ser.dst", "DstIP")
				case "UDP", "TCP":
					rec("ser.sport", "SrcPort")
					rec("ser.dport", "DstPort")
					if lt == "TCP" {
						rec("ser.seq", "Seq")
						rec("ser.acknum", "Ack")
						rec("ser.syn", "SYN")
						rec("ser.ack", "ACK")
						rec("ser.psh", "PSH")
						rec("ser.rst", "RST")
						rec("ser.fin", "FIN")
					}
					if ph, ok := ex.fieldOf(st, p, "pseudoheader"); ok {
						pseudo = and(pseudo, imp(is, not(eq(ph.L[0], "0"))))
					}
				case "ICMPv4":
					rec("ser.icmptc", "TypeCode")
					rec("ser.icmpid", "Id")
					rec("ser.icmpseq", "Seq")
				case "ICMPv6":
					rec("ser.icmptc", "TypeCode")
					if ph, ok := ex.fieldOf(st, p, "pseudoheader"); ok {
						pseudo = and(pseudo, imp(is, not(eq(ph.L[0], "0"))))
					}
				}
			}
		}
		// the application payload (a gopacket.Payload layer, boxed by value): its length is what FixLengths turns into the
		// UDP length / IPv6 payload length on the wire (ser.paylen; -1 when no Payload layer is present)
		if gp := ex.w.pkgs["github.com/google/gopacket"]; gp != nil {
			if po := gp.Pkg.Scope().Lookup("Payload"); po != nil {
				ptag := num(int64(ex.w.typeID(po.Type())))
				paylen := "(- 1)"
				for i := int64(0); i < n.Int64(); i++ {
					e := ex.sliceLoad(st, ls, num(i))
					is := eq(e.L[0], ptag)
					if is == "false" {
						continue
					}
					if c1, ok1 := isConstTerm(e.L[0]); ok1 {
						if c2, _ := isConstTerm(ptag); c2 != nil && c1.Cmp(c2) != 0 {
							continue
						}
					}
					pv := ex.unbox(st, e, po.Type())
					if len(pv.L) >= 3 {
						paylen = ite(is, pv.L[2], paylen)
					}
				}
				ex.registerKey("X|ser.paylen", sInt)
				ex.setGhost(st, "ser.paylen", paylen)
			}
		}
		ex.setGhost(st, "ser.pseudo", pseudo)
		ex.setGhost(st, "ser.minlen", minlen)
		e := ex.freshVal(errorT(), st, "sererr")
		ex.assumeExternalError(e)
		return e
	})
	// serialize buffers: opaque
	reg("github.com/google/gopacket.SerializeBuffer.Bytes", func(c *callCtx) Val {
		ex := c.ex
		t := types.NewSlice(types.Typ[types.Byte])
		v := ex.freshVal(t, c.st, "serbytes")
		if ex.pure == 0 {
			// ASSUMED: the buffer holds at least the fixed headers of the layers serialized last
			ex.registerKey("X|ser.minlen", sInt)
			ex.assume(and(app(">", v.L[0], "0"), app("<=", ex.heapGet(c.st, "X|ser.minlen", sInt), v.L[2])))
		}
		return v
	})
	reg("github.com/google/gopacket.SerializeBuffer.Clear", func(c *callCtx) Val {
		e := c.ex.freshVal(errorT(), c.st, "clrerr")
		c.ex.assumeExternalError(e)
		return e
	})
	reg("bytes.Repeat", func(c *callCtx) Val {
		// len(result) == len(b) * count; contents are not modelled
		ex := c.ex
		b, cnt := c.args[0], c.args[1].L[0]
		c.safety(app("<=", "0", cnt), "bytes.Repeat: negative count")
		r := ex.alloc(c.st)
		n := ex.name("replen", app("*", b.L[2], cnt), sInt)
		return sliceVal(types.NewSlice(types.Typ[types.Byte]), r, "0", n, n)
	})
	pureLib["(*golang.org/x/net/ipv4.Header).Parse"] = true
}
