package main

import (
	"fmt"
	"os"
	"go/types"
	"strings"
)

// Base describes the default (not yet materialised) content of a heap: the
// pre-state, a havoc point, or a conditional merge of two defaults.
type Base struct {
	id   int
	kind int // 0 pre-state, 1 havoc, 2 ite
	cond string
	a, b *Base
	top  string // allocation top at the time of the havoc (kind 0/1)
	// state just before the havoc (kind 1): fields that are immutable after construction keep their values
	prevH    map[string]string
	prevBase *Base
	prevTop  string
}

// Item is one element of the VC sequence: an assumption or an obligation.
type Item struct {
	Assume string
	Ob     *Obligation
}

type Obligation struct {
	Name   string // stable obligation name: unit#label
	Unit   string
	Label  string
	Props  []string // property ids served
	Goal   string   // SMT formula to prove (already guarded by reach)
	Pos    string   // source position, informational
	Text   string   // clause text, informational
	Index  int      // index into items (prefix length)
	Result *SolveResult
	Kind   string // "ensures", "requires-at-call", "invariant", "nopanic", "frame", "cover", "planted"
	// for cover obligations: sat expected
	ExpectSat bool
	QueryBytes int
}

// Exec builds the verification conditions for one unit (function under contract).
type Exec struct {
	w        *World
	unit     *Unit
	decls    []string
	declared map[string]string
	items    []Item
	obls     []*Obligation
	pure     int
	nfresh   int
	keySort  map[string]string
	nbase    int
	baseInit *Base
	defCache map[string]string
	used     map[string]bool // trusted/assumed specs, abstractions touched
	strs     map[string]string
	// loop modification discovery
	discover  bool
	loopMods  map[string]map[string]bool // loop id → heap keys written
	loopAll   map[string]bool            // loop id → havoc everything
	loopStack []string
	warnings  []string
	oblCount  map[string]int
	ghostInit map[string]string

	cellFuncs       map[string]*FuncInfo
	calledContracts map[*Contract]bool
	lockSites       []Val // mutexes this unit locks or unlocks (pointer values), for the lock.balance obligation
	beforeHit       map[string]bool // `before CALLEE` keys that matched at least one call site
	returnReach     []string
	backReach       []string // reach condition of every loop back edge (top-level function), for the vacuity cover
	backPos         []string
	returnPos       []string
	entryArgs       []Val // symbolic parameters of the unit at entry (for counterexample replay)
	coverAcc        map[string][]string
	spawnsAllowed   bool
	chainAxioms     bool
	preamble        []string
	preAssume       []string
	sentinels       map[string]types.Type
	entryIndex      int
	topFrame        *frame
	curReach        string
	pureLets        [][2]string
	callerFrame     *frame
	lastArgTypes    map[string]types.Type
	lastResTypes    map[string]types.Type
	counters        map[string]bool
	strCatAxiom     bool
	strLits         map[string]string
	letDepth        int
	qrec            map[string]*qRecord
}

// qRecord collects the slice accesses indexed directly by a quantified variable.
type qRecord struct {
	seen map[string]bool
	acc  [][2]string // (array ref term, offset term)
	pats []string    // ghost-array selects indexed directly by the bound variable
}

func newExec(w *World, u *Unit) *Exec {
	ex := &Exec{w: w, unit: u, declared: map[string]string{}, keySort: map[string]string{}, defCache: map[string]string{},
		used: map[string]bool{}, strs: map[string]string{}, loopMods: map[string]map[string]bool{}, loopAll: map[string]bool{}, oblCount: map[string]int{},
		cellFuncs: map[string]*FuncInfo{}, calledContracts: map[*Contract]bool{}, coverAcc: map[string][]string{}, sentinels: map[string]types.Type{}, qrec: map[string]*qRecord{}, curReach: "true", lastArgTypes: map[string]types.Type{}, lastResTypes: map[string]types.Type{}, counters: map[string]bool{}, strLits: map[string]string{}}
	ex.baseInit = &Base{id: 0}
	ex.declare("str_empty", sStr)
	return ex
}

func (ex *Exec) fresh(prefix string) string {
	ex.nfresh++
	return fmt.Sprintf("%s!%d", prefix, ex.nfresh)
}

func (ex *Exec) declare(name, sort string) {
	if _, ok := ex.declared[name]; ok {
		return
	}
	ex.declared[name] = sort
	ex.decls = append(ex.decls, fmt.Sprintf("(declare-const %s %s)", name, sort))
}

func (ex *Exec) declareFun(name string, args []string, ret string) {
	if _, ok := ex.declared[name]; ok {
		return
	}
	ex.declared[name] = "fun"
	ex.decls = append(ex.decls, fmt.Sprintf("(declare-fun %s (%s) %s)", name, strings.Join(args, " "), ret))
}

// freshConst declares a new symbolic constant.
func (ex *Exec) freshConst(prefix, sort string) string {
	n := ex.fresh(sanitize(prefix))
	ex.declare(n, sort)
	return n
}

// assume adds a fact that holds whenever the current program point is reached.
func (ex *Exec) assume(f string) {
	if f == "true" || ex.pure > 0 || ex.discover {
		return
	}
	ex.items = append(ex.items, Item{Assume: imp(ex.curReach, f)})
}

// name binds a term to a fresh constant (no-op in pure mode or for small terms).
func (ex *Exec) name(prefix, term, sort string) string {
	return ex.nameMin(prefix, term, sort, 48)
}

// nameMin names every compound term of at least min characters.
func (ex *Exec) nameMin(prefix, term, sort string, min int) string {
	if ex.discover {
		// the discovery pass only needs the structure of the execution, not the terms
		if strings.HasPrefix(term, "(") && len(term) > 24 {
			return "d!"
		}
		return term
	}
	if ex.pure > 0 {
		if len(term) > 4<<20 {
			if os.Getenv("GOVC_DEBUG") != "" {
				fmt.Fprintf(os.Stderr, "BIGTERM %s: %s\n ... %s\n", prefix, term[:1500], term[len(term)-300:])
			}
			panic(unsupported("specification term exceeds the VC size cap (4 MiB)"))
		}
		if ex.letDepth > 0 && len(term) >= 40 && strings.HasPrefix(term, "(") {
			// inside a specification, sharing is expressed with let-bindings closed off by pureScope
			ex.nfresh++
			n := fmt.Sprintf("l!%d", ex.nfresh)
			ex.pureLets = append(ex.pureLets, [2]string{n, term})
			return n
		}
		return term
	}
	if len(term) < min || !strings.HasPrefix(term, "(") {
		return term
	}
	n := ex.freshConst(prefix, sort)
	ex.items = append(ex.items, Item{Assume: eq(n, term)})
	return n
}

func (ex *Exec) oblige(label, kind string, props []string, goal, pos, text string) *Obligation {
	if ex.pure > 0 || ex.discover {
		return nil
	}
	ex.oblCount[label]++
	if c := ex.oblCount[label]; c > 1 {
		label = fmt.Sprintf("%s~%d", label, c)
	}
	ob := &Obligation{Name: ex.unit.Name + "#" + label, Unit: ex.unit.Name, Label: label, Props: props, Goal: goal, Pos: pos, Text: text, Kind: kind, Index: len(ex.items)}
	ex.items = append(ex.items, Item{Ob: ob})
	ex.obls = append(ex.obls, ob)
	return ob
}

// strConst returns the SMT constant for a Go string literal.
func (ex *Exec) strConst(s string) string {
	if s == "" {
		return "str_empty"
	}
	if n, ok := ex.strs[s]; ok {
		return n
	}
	n := fmt.Sprintf("str!%d_%s", len(ex.strs), sanitize(trunc(s, 16)))
	ex.strs[s] = n
	ex.strLits[n] = s
	ex.declare(n, sStr)
	return n
}

func trunc(s string, n int) string {
	if len(s) > n {
		return s[:n]
	}
	return s
}

// distinctStrings is asserted once at the top of every query.
func (ex *Exec) distinctStrings() string {
	if len(ex.strs) == 0 {
		return "true"
	}
	names := []string{"str_empty"}
	for _, k := range sortedKeys(ex.strs) {
		names = append(names, ex.strs[k])
	}
	return app("distinct", names...)
}

// ---------------------------------------------------------------- heap defaults

func (ex *Exec) registerKey(key, sort string) {
	if old, ok := ex.keySort[key]; ok && old != sort {
		panic(fmt.Sprintf("heap key %s: sort clash %s vs %s", key, old, sort))
	}
	ex.keySort[key] = sort
}

func (ex *Exec) defaultTerm(key string, b *Base) string {
	if strings.HasPrefix(key, "X|") {
		// ghost state is never forgotten implicitly: only explicit updates change it
		b = ex.baseInit
	}
	if strings.HasPrefix(key, "X|expect.") {
		// what a counter is expected to be starts as the counter itself
		return ex.defaultTerm("X|"+strings.TrimPrefix(key, "X|expect."), b)
	}
	ck := fmt.Sprintf("%d|%s", b.id, key)
	if t, ok := ex.defCache[ck]; ok {
		return t
	}
	var t string
	switch b.kind {
	case 0:
		t = "H0!" + sanitize(key)
		ex.declare(t, ex.keySort[key])
		if wf := wfFact(key, t, "top!0"); wf != "" {
			ex.preAssume = append(ex.preAssume, wf)
		}
		if key == "X|dns.ans" {
			// recorded answers are slices that exist
			ex.preAssume = append(ex.preAssume, "(forall ((q!w Str) (r!w Int)) (! (=> (select (select "+t+" q!w) r!w) (and (<= 1 r!w) (<= r!w top!0))) :pattern ((select (select "+t+" q!w) r!w))))")
		}
		if key == "X|cache.ref" {
			// stored values exist
			ex.preAssume = append(ex.preAssume, "(forall ((k!w Str)) (! (and (<= 0 (select "+t+" k!w)) (<= (select "+t+" k!w) top!0)) :pattern ((select "+t+" k!w))))")
		}
		if key == "X|isOpen" || key == "X|osOpen" {
			// typestate well-formedness: an object that is not allocated yet is not an open handle
			ex.preAssume = append(ex.preAssume, "(forall ((r!w Int)) (! (=> (> r!w top!0) (not (select "+t+" r!w))) :pattern ((select "+t+" r!w))))")
		}
	case 1:
		t = fmt.Sprintf("Hh%d!%s", b.id, sanitize(key))
		ex.declare(t, ex.keySort[key])
		if wf := wfFact(key, t, b.top); wf != "" {
			ex.preAssume = append(ex.preAssume, wf)
		}
		if b.prevBase != nil && (ex.w.immutableFieldKey(key) || strings.HasPrefix(key, "B|")) {
			// (boxed interface payloads are immutable in Go)
			prev, ok := b.prevH[key]
			if !ok {
				prev = ex.defaultTerm(key, b.prevBase)
			}
			ex.used["immutable-after-construction fields keep their value across heap havoc (A-IMMFIELD: program-wide store/escape scan; reflect/unsafe writes not seen)"] = true
			ex.preAssume = append(ex.preAssume, "(forall ((r!w Int)) (! (=> (and (<= 0 r!w) (<= r!w "+b.prevTop+")) (= (select "+t+" r!w) (select "+prev+" r!w))) :pattern ((select "+t+" r!w))))")
		}
	case 2:
		t = ite(b.cond, ex.defaultTerm(key, b.a), ex.defaultTerm(key, b.b))
		if len(t) > 200 && !ex.discover {
			// bind the merged default to a name (a conservative definition, valid anywhere in the VC)
			n := fmt.Sprintf("Hm%d!%s", b.id, sanitize(key))
			ex.declare(n, ex.keySort[key])
			ex.preAssume = append(ex.preAssume, eq(n, t))
			t = n
		}
	}
	ex.defCache[ck] = t
	return t
}

func (ex *Exec) newHavocBase(top string) *Base {
	ex.nbase++
	return &Base{id: ex.nbase, kind: 1, top: top}
}

// wfFact states heap well-formedness for reference-valued heap keys: stored references
// never point beyond the allocation top (no dangling references into the future).
func wfFact(key, term, top string) string {
	kind := keyKind(key)
	if kind == "X" || kind == "B" || kind == "MH" {
		return ""
	}
	leaf := key[strings.LastIndex(key, "|")+1:]
	isRef := false
	if strings.HasSuffix(leaf, ".arr") || leaf == "arr" {
		isRef = true
	}
	if r, ok := refLeafKeys[key]; ok && r {
		isRef = true
	}
	if !isRef {
		if rg, ok := intLeafRange[key]; ok {
			switch kind {
			case "F", "C":
				return "(forall ((r!w Int)) (! (and (<= " + rg[0] + " (select " + term + " r!w)) (<= (select " + term + " r!w) " + rg[1] + ")) :pattern ((select " + term + " r!w))))"
			case "E":
				return "(forall ((r!w Int) (i!w Int)) (! (and (<= " + rg[0] + " (select (select " + term + " r!w) i!w)) (<= (select (select " + term + " r!w) i!w) " + rg[1] + ")) :pattern ((select (select " + term + " r!w) i!w))))"
			}
		}
		return ""
	}
	switch kind {
	case "F", "C":
		// objects allocated after this heap snapshot (r > top: results of later contract calls whose contents are
		// read lazily from the snapshot) may point to anything allocated later: only non-negativity is known
		return "(forall ((r!w Int)) (! (and (<= 0 (select " + term + " r!w)) (=> (<= r!w " + top + ") (<= (select " + term + " r!w) " + top + "))) :pattern ((select " + term + " r!w))))"
	case "E":
		return "(forall ((r!w Int) (i!w Int)) (! (and (<= 0 (select (select " + term + " r!w) i!w)) (=> (<= r!w " + top + ") (<= (select (select " + term + " r!w) i!w) " + top + "))) :pattern ((select (select " + term + " r!w) i!w))))"
	case "G":
		return "(and (<= 0 " + term + ") (<= " + term + " " + top + "))"
	}
	return ""
}

// refLeafKeys records which heap keys hold references (pointers, maps, channels).
var refLeafKeys = map[string]bool{}

// intLeafRange records the value range of heap keys holding sized integers.
var intLeafRange = map[string][2]string{}

func (ex *Exec) heapGet(st *State, key, sort string) string {
	ex.registerKey(key, sort)
	if t, ok := st.H[key]; ok {
		return t
	}
	return ex.defaultTerm(key, st.Base)
}

func (ex *Exec) heapSet(st *State, key, sort, term string) {
	ex.registerKey(key, sort)
	st.H[key] = ex.name("h", term, sort)
	for _, l := range ex.loopStack {
		m := ex.loopMods[l]
		if m == nil {
			m = map[string]bool{}
			ex.loopMods[l] = m
		}
		m[key] = true
	}
}

// setH writes a heap/ghost key without renaming the term; like heapSet it records the key in the modification sets of
// the enclosing loops (a loop must forget every key its body may write).
func (ex *Exec) setH(st *State, key, term string) {
	st.H[key] = term
	for _, l := range ex.loopStack {
		m := ex.loopMods[l]
		if m == nil {
			m = map[string]bool{}
			ex.loopMods[l] = m
		}
		m[key] = true
	}
}

// State is a heap state with a default base.
type State struct {
	H    map[string]string
	Base *Base
	Top  string
}

func (s *State) clone() *State {
	n := &State{H: make(map[string]string, len(s.H)), Base: s.Base, Top: s.Top}
	for k, v := range s.H {
		n.H[k] = v
	}
	return n
}

// havocAll forgets everything about the heap except ghost keys (X|...).
func (ex *Exec) havocAll(st *State, why string) {
	ex.used["havoc-all: "+why] = true
	keep := map[string]string{}
	for k, v := range st.H {
		if strings.HasPrefix(k, "X|") {
			keep[k] = v
		}
	}
	// ghost keys that are not materialised keep their default; materialise them first
	for _, k := range sortedKeys(ex.keySort) {
		if strings.HasPrefix(k, "X|") {
			if _, ok := keep[k]; !ok {
				keep[k] = ex.defaultTerm(k, st.Base)
			}
		}
	}
	// lock state survives a heap havoc: whatever ran (a callee with "modifies *", an interface method, a loop body)
	// returns with the set of locks it was entered with — proved for every unit under contract (lock.balance), assumed
	// for code outside the verifier's reach (A-LOCKBAL)
	for _, k := range sortedKeys(ex.keySort) {
		if isHeldKey(k) {
			if v, ok := st.H[k]; ok {
				keep[k] = v
			} else {
				keep[k] = ex.defaultTerm(k, st.Base)
			}
			ex.used["A-LOCKBAL: lock state is unchanged by code that is havocked (callees return with the lock set they were entered with; proved for units under contract, assumed for external code)"] = true
		}
	}
	prevH, prevBase, prevTop := st.H, st.Base, st.Top
	st.H = keep
	top := ex.freshOrTerm("top", sInt)
	ex.assume(app("<=", st.Top, top))
	st.Top = top
	st.Base = ex.newHavocBase(top)
	st.Base.prevH, st.Base.prevBase, st.Base.prevTop = prevH, prevBase, prevTop
	for _, l := range ex.loopStack {
		ex.loopAll[l] = true
	}
}

func (ex *Exec) freshOrTerm(prefix, sort string) string {
	return ex.freshConst(prefix, sort)
}

// mergeStates merges predecessor states under their edge conditions.
func (ex *Exec) mergeStates(conds []string, sts []*State) *State {
	if len(sts) == 1 {
		return sts[0].clone()
	}
	out := &State{H: map[string]string{}}
	// base
	b := sts[len(sts)-1].Base
	for i := len(sts) - 2; i >= 0; i-- {
		if sts[i].Base != b {
			ex.nbase++
			b = &Base{id: ex.nbase, kind: 2, cond: conds[i], a: sts[i].Base, b: b}
		}
	}
	out.Base = b
	keys := map[string]bool{}
	for _, s := range sts {
		for k := range s.H {
			keys[k] = true
		}
	}
	ks := make([]string, 0, len(keys))
	for k := range keys {
		ks = append(ks, k)
	}
	sortStrings(ks)
	for _, k := range ks {
		get := func(s *State) string {
			if t, ok := s.H[k]; ok {
				return t
			}
			return ex.defaultTerm(k, s.Base)
		}
		t := get(sts[len(sts)-1])
		for i := len(sts) - 2; i >= 0; i-- {
			t = ite(conds[i], get(sts[i]), t)
		}
		if t != ex.defaultTerm(k, out.Base) {
			out.H[k] = ex.name("m", t, ex.keySort[k])
		}
	}
	t := sts[len(sts)-1].Top
	for i := len(sts) - 2; i >= 0; i-- {
		t = ite(conds[i], sts[i].Top, t)
	}
	out.Top = ex.name("top", t, sInt)
	return out
}

// ---------------------------------------------------------------- pointer addressing

type leafAddr struct {
	key  string
	sort string // sort of the heap key
	idx  []string
	leaf Leaf
}

// addrLeaves resolves a pointer into the heap locations of each leaf of its pointee.
func (ex *Exec) addrLeaves(p Val) []leafAddr {
	pi := ptrInfoOf(p)
	if pi.Kind == pkArr {
		panic(unsupported("whole-array access through pointer " + p.T.String()))
	}
	base, pointee := pi.pathBase()
	pl := leaves(pointee)
	rl := leaves(pi.Root)
	out := make([]leafAddr, len(pl))
	for j := range pl {
		l := rl[base+j]
		var a leafAddr
		a.leaf = l
		switch pi.Kind {
		case pkObj:
			a.key = "F|" + typeKey(pi.Root) + "|" + l.Name
			a.sort = heapKeySort("F", l.Sort, "")
			a.idx = []string{p.L[0]}
		case pkCell:
			a.key = "C|" + typeKey(pi.Root) + "|" + l.Name
			a.sort = heapKeySort("C", l.Sort, "")
			a.idx = []string{p.L[0]}
		case pkElem:
			a.key = "E|" + typeKey(pi.Root) + "|" + l.Name
			a.sort = heapKeySort("E", l.Sort, "")
			a.idx = []string{p.L[0], pi.Idx}
		case pkGlobal:
			a.key = "G|" + pi.Glob.Pkg.Pkg.Path() + "." + pi.Glob.Name() + "|" + l.Name
			a.sort = heapKeySort("G", l.Sort, "")
		}
		if l.Kind == kRef || l.Kind == kSlArr {
			refLeafKeys[a.key] = true
		}
		if l.Kind == kInt {
			if bits, _, ok := intBits(l.T); ok && bits <= 32 {
				lo, hi, _ := intRange(l.T)
				intLeafRange[a.key] = [2]string{lo, hi}
			}
		}
		out[j] = a
	}
	return out
}

func (ex *Exec) load(st *State, p Val) Val {
	pt := p.T.Underlying().(*types.Pointer)
	as := ex.addrLeaves(p)
	v := Val{T: pt.Elem(), L: make([]string, len(as))}
	for j, a := range as {
		h := ex.heapGet(st, a.key, a.sort)
		v.L[j] = sel(h, a.idx...)
	}
	// static function values stored in cells are not tracked
	return v
}

func (ex *Exec) store(st *State, p Val, v Val) {
	as := ex.addrLeaves(p)
	if len(as) != len(v.L) {
		panic(unsupported(fmt.Sprintf("store: leaf mismatch %s <- %s (%d vs %d)", p.T, v.T, len(as), len(v.L))))
	}
	for j, a := range as {
		h := ex.heapGet(st, a.key, a.sort)
		var nh string
		switch len(a.idx) {
		case 0:
			nh = v.L[j]
		case 1:
			nh = sto(h, a.idx[0], v.L[j])
		case 2:
			nh = sto2(h, a.idx[0], a.idx[1], v.L[j])
		}
		ex.heapSet(st, a.key, a.sort, nh)
	}
}

// alloc returns a fresh reference.
func (ex *Exec) alloc(st *State) string {
	r := ex.name("ref", app("+", st.Top, "1"), sInt)
	if r == app("+", st.Top, "1") && ex.pure == 0 && !ex.discover {
		n := ex.freshConst("ref", sInt)
		ex.items = append(ex.items, Item{Assume: eq(n, r)})
		r = n
	}
	st.Top = r
	return r
}

// allocObject allocates a zeroed object/cell of type t and returns a clean pointer to it.
func (ex *Exec) allocObject(st *State, t types.Type) Val {
	r := ex.alloc(st)
	p := Val{T: types.NewPointer(t), L: []string{r}}
	if arr, ok := t.Underlying().(*types.Array); ok {
		// zero the backing array
		ex.zeroArray(st, r, arr.Elem())
		return p
	}
	ex.store(st, p, zeroVal(t))
	return p
}

func (ex *Exec) zeroArray(st *State, ref string, elem types.Type) {
	for _, l := range leaves(elem) {
		key := "E|" + typeKey(elem) + "|" + l.Name
		srt := heapKeySort("E", l.Sort, "")
		h := ex.heapGet(st, key, srt)
		ex.heapSet(st, key, srt, sto(h, ref, "((as const "+arrSort(sInt, l.Sort)+") "+zeroLeaf(l)+")"))
	}
}

// elemPtr builds a pointer to element idx (absolute) of backing array ref.
func elemPtr(elem types.Type, ref, idx string) Val {
	return Val{T: types.NewPointer(elem), L: []string{ref}, P: &PtrInfo{Kind: pkElem, Root: elem, Idx: idx}}
}

// ---------------------------------------------------------------- maps

func mapKeySort(m *types.Map) string {
	ls := leaves(m.Key())
	if len(ls) != 1 {
		return sInt // packed (mapKeyTerm)
	}
	return ls[0].Sort
}

// mapKeyTerm: the term a map of type mt is indexed with for key k. A key with several leaves (a comparable struct such
// as netip.Addr) is packed into one integer by an uninterpreted function that is injective (it has inverses), so two
// keys index the same entry exactly when all their leaves agree — Go's == on comparable structs. String leaves are
// compared by identity of their interned term, as everywhere else.
func (ex *Exec) mapKeyTerm(mt *types.Map, k Val) string {
	ls := leaves(mt.Key())
	if len(ls) == 1 {
		if len(k.L) != 1 {
			panic(unsupported("map key value with several leaves for a scalar key type"))
		}
		return k.L[0]
	}
	if len(k.L) != len(ls) {
		panic(unsupported("map key leaves do not match the key type " + mt.Key().String()))
	}
	name := "pack!" + sanitize(typeKey(mt.Key()))
	if _, ok := ex.declared[name]; !ok {
		var sorts, vars, bound []string
		for i, l := range ls {
			sorts = append(sorts, l.Sort)
			v := fmt.Sprintf("k!%d", i)
			vars = append(vars, v)
			bound = append(bound, "("+v+" "+l.Sort+")")
		}
		ex.declareFun(name, sorts, sInt)
		call := app(name, vars...)
		var inv []string
		for i, l := range ls {
			un := fmt.Sprintf("un%s!%d", name, i)
			ex.declareFun(un, []string{sInt}, l.Sort)
			inv = append(inv, eq(app(un, call), vars[i]))
		}
		ex.preAssume = append(ex.preAssume, "(forall ("+strings.Join(bound, " ")+") (! "+and(inv...)+" :pattern ("+call+")))")
		ex.used["map keys of type "+mt.Key().String()+" are packed by an injective uninterpreted function (equality of keys = equality of all leaves)"] = true
	}
	return app(name, k.L...)
}

func (ex *Exec) mapHas(st *State, m Val, k string) string {
	mt := m.T.Underlying().(*types.Map)
	ks := mapKeySort(mt)
	key := "MH|" + typeKey(mt)
	h := ex.heapGet(st, key, heapKeySort("MH", "", ks))
	if rec, ok := ex.qrec[k]; ok {
		rec.pats = append(rec.pats, sel(h, m.L[0], k))
	}
	return sel(h, m.L[0], k)
}

func (ex *Exec) mapGet(st *State, m Val, k string) Val {
	mt := m.T.Underlying().(*types.Map)
	ks := mapKeySort(mt)
	has := ex.mapHas(st, m, k)
	ls := leaves(mt.Elem())
	v := Val{T: mt.Elem(), L: make([]string, len(ls))}
	for j, l := range ls {
		key := "MV|" + typeKey(mt) + "|" + l.Name
		h := ex.heapGet(st, key, heapKeySort("MV", l.Sort, ks))
		v.L[j] = ite(has, sel(h, m.L[0], k), zeroLeaf(l))
	}
	return v
}

func (ex *Exec) mapSet(st *State, m Val, k string, v Val) {
	mt := m.T.Underlying().(*types.Map)
	ks := mapKeySort(mt)
	key := "MH|" + typeKey(mt)
	srt := heapKeySort("MH", "", ks)
	h := ex.heapGet(st, key, srt)
	ex.heapSet(st, key, srt, sto2(h, m.L[0], k, "true"))
	for j, l := range leaves(mt.Elem()) {
		key := "MV|" + typeKey(mt) + "|" + l.Name
		srt := heapKeySort("MV", l.Sort, ks)
		h := ex.heapGet(st, key, srt)
		ex.heapSet(st, key, srt, sto2(h, m.L[0], k, v.L[j]))
	}
}

func (ex *Exec) mapDelete(st *State, m Val, k string) {
	mt := m.T.Underlying().(*types.Map)
	ks := mapKeySort(mt)
	key := "MH|" + typeKey(mt)
	srt := heapKeySort("MH", "", ks)
	h := ex.heapGet(st, key, srt)
	ex.heapSet(st, key, srt, sto2(h, m.L[0], k, "false"))
}

func (ex *Exec) mapNew(st *State, mt *types.Map) string {
	r := ex.alloc(st)
	ks := mapKeySort(mt)
	key := "MH|" + typeKey(mt)
	srt := heapKeySort("MH", "", ks)
	h := ex.heapGet(st, key, srt)
	ex.heapSet(st, key, srt, sto(h, r, "((as const "+arrSort(ks, sBool)+") false)"))
	return r
}

// ---------------------------------------------------------------- slices

func sliceVal(t types.Type, arr, off, ln, cp string) Val {
	return Val{T: t, L: []string{arr, off, ln, cp}}
}

func sliceElemType(t types.Type) types.Type {
	switch u := t.Underlying().(type) {
	case *types.Slice:
		return u.Elem()
	case *types.Basic: // string
		return types.Typ[types.Byte]
	}
	panic(unsupported("sliceElemType " + t.String()))
}

// sliceElemLeaf reads leaf j of element i (relative) of slice s.
func (ex *Exec) sliceLoad(st *State, s Val, i string) Val {
	et := sliceElemType(s.T)
	if rec, ok := ex.qrec[i]; ok {
		// the index is a quantified variable: remember the access so the quantifier can be oriented on it
		key := s.L[0] + "|" + s.L[1]
		if !rec.seen[key] {
			rec.seen[key] = true
			rec.acc = append(rec.acc, [2]string{s.L[0], s.L[1]})
		}
	}
	p := elemPtr(et, s.L[0], at(s.L[1], i))
	return ex.load(st, p)
}

func sortStrings(s []string) {
	for i := 1; i < len(s); i++ {
		for j := i; j > 0 && s[j] < s[j-1]; j-- {
			s[j], s[j-1] = s[j-1], s[j]
		}
	}
}

// pureScope evaluates a specification term; sharing introduced while building it is closed off with let-bindings.
func (ex *Exec) pureScope(f func() string) string {
	mark := len(ex.pureLets)
	ex.letDepth++
	body := f()
	ex.letDepth--
	lets := ex.pureLets[mark:]
	ex.pureLets = ex.pureLets[:mark]
	for i := len(lets) - 1; i >= 0; i-- {
		body = "(let ((" + lets[i][0] + " " + lets[i][1] + ")) " + body + ")"
	}
	return body
}

// isHeldKey: heap keys holding the "held" flag of a sync.Mutex / RWMutex (as a struct field or as a cell).
func isHeldKey(k string) bool {
	if !(strings.HasPrefix(k, "F|") || strings.HasPrefix(k, "C|")) {
		return false
	}
	leaf := k[strings.LastIndex(k, "|")+1:]
	return leaf == "held" || strings.HasSuffix(leaf, ".held")
}
