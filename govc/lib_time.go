package main

import (
	"go/types"
)

// time.Time is modelled as nanoseconds on a ghost clock (0 = the zero Time). The clock starts
// above 2^63 so that Now()+d can never be the zero Time for any int64 duration (A-CLOCK).

func init() {
	reg("time.Now", func(c *callCtx) Val {
		n := c.ex.advanceClock(c.st, c.r())
		c.ex.used["A-CLOCK: time.Now is monotone and never the zero Time"] = true
		return Val{L: []string{n}}
	})
	reg("time.Since", func(c *callCtx) Val {
		n := c.ex.advanceClock(c.st, c.r())
		return scalar(types.Typ[types.Int64], app("-", n, c.args[0].L[0]))
	})
	reg("time.Until", func(c *callCtx) Val {
		n := c.ex.advanceClock(c.st, c.r())
		return scalar(types.Typ[types.Int64], app("-", c.args[0].L[0], n))
	})
	reg("(time.Time).IsZero", func(c *callCtx) Val { return boolVal(eq(c.args[0].L[0], "0")) })
	reg("(time.Time).Add", func(c *callCtx) Val { return Val{L: []string{app("+", c.args[0].L[0], c.args[1].L[0])}} })
	reg("(time.Time).Sub", func(c *callCtx) Val {
		return scalar(types.Typ[types.Int64], app("-", c.args[0].L[0], c.args[1].L[0]))
	})
	reg("(time.Time).Before", func(c *callCtx) Val { return boolVal(app("<", c.args[0].L[0], c.args[1].L[0])) })
	reg("(time.Time).After", func(c *callCtx) Val { return boolVal(app(">", c.args[0].L[0], c.args[1].L[0])) })
	reg("time.Sleep", func(c *callCtx) Val {
		ex := c.ex
		if ex.pure > 0 {
			return Val{}
		}
		cur, _ := ex.ghostGet(c.st, "clock")
		n := ex.freshConst("clock", sInt)
		d := c.args[0].L[0]
		ex.assume(and(app("<=", cur.L[0], n), app("<=", app("+", cur.L[0], d), n)))
		ex.ghostSet(c.st, "clock", n)
		ex.used["A-CLOCK: time.Sleep(d) advances the clock by at least d"] = true
		return Val{}
	})
	reg("time.After", func(c *callCtx) Val {
		// returns a channel that delivers once the clock has advanced by d
		ex := c.ex
		ch := ex.alloc(c.st)
		cur, _ := ex.ghostGet(c.st, "clock")
		ex.registerKey("X|timer", arrSort(sInt, sInt))
		h := ex.heapGet(c.st, "X|timer", arrSort(sInt, sInt))
		ex.setH(c.st, "X|timer", ex.name("timer", sto(h, ch, app("+", cur.L[0], c.args[0].L[0])), arrSort(sInt, sInt)))
		return Val{L: []string{ch}}
	})

	// sync.Mutex: a held flag; unlocking an unlocked mutex is a fatal error.
	reg("(*sync.Mutex).Lock", func(c *callCtx) Val { return c.ex.lockOp(c, true) })
	reg("(*sync.Mutex).Unlock", func(c *callCtx) Val { return c.ex.lockOp(c, false) })
}

func (ex *Exec) lockOp(c *callCtx, lock bool) Val {
	p := c.args[0]
	if ex.pure > 0 {
		return Val{}
	}
	held := ex.load(c.st, p).L[0]
	if !ex.discover {
		ex.lockSites = append(ex.lockSites, p)
	}
	if lock {
		// blocking acquire: Lock only returns once nobody — this goroutine included — holds the mutex, so on every path
		// that continues past it the mutex was not held before (a self-deadlock never continues: partial correctness)
		ex.assume(not(held))
		ex.used["sync.Mutex.Lock returns only when the mutex was free (a self-deadlock is a non-terminating path, outside partial correctness)"] = true
		ex.store(c.st, p, boolVal("true"))
		ex.monitorEnter(c, p)
	} else {
		c.safety(held, "sync: unlock of unlocked mutex")
		ex.monitorExit(c, p)
		ex.store(c.st, p, boolVal("false"))
	}
	return Val{}
}


func init() {
	// timers: a fresh timer object; its channel is an opaque reference (receives are not modelled)
	reg("time.NewTimer", func(c *callCtx) Val {
		ex := c.ex
		return ex.allocObject(c.st, c.res.At(0).Type().Underlying().(*types.Pointer).Elem())
	})
	reg("(*time.Timer).Stop", func(c *callCtx) Val {
		return c.ex.freshVal(types.Typ[types.Bool], c.st, "timerstop")
	})
	reg("(*time.Timer).Reset", func(c *callCtx) Val {
		return c.ex.freshVal(types.Typ[types.Bool], c.st, "timerreset")
	})
}
