package main

import (
	"fmt"
	"go/types"
	"regexp"
	"strings"
)

// Leaf describes one SMT-level component of a Go value.
type Leaf struct {
	Name string // dotted path within the value ("" for a scalar)
	Sort string
	Kind leafKind
	T    types.Type // Go type of the component this leaf belongs to
}

type leafKind int

const (
	kInt leafKind = iota
	kBool
	kReal
	kStr
	kRef // pointer / map / chan / func / opaque handle
	kSlArr
	kSlOff
	kSlLen
	kSlCap
	kIfTag
	kIfRef
	kTime   // time.Time as ghost-clock nanoseconds, 0 = zero Time
	kAddrHi // netip.Addr components
	kAddrLo
	kAddrZ
)

var byteRe = regexp.MustCompile(`\bbyte\b`)
var runeRe = regexp.MustCompile(`\brune\b`)
var typeKeyCache = map[types.Type]string{}

// typeKey is a canonical name for a type (universe aliases byte/rune resolved).
func typeKey(t types.Type) string {
	if k, ok := typeKeyCache[t]; ok {
		return k
	}
	s := types.TypeString(types.Unalias(t), func(p *types.Package) string { return p.Path() })
	if strings.Contains(s, "byte") {
		s = byteRe.ReplaceAllString(s, "uint8")
	}
	if strings.Contains(s, "rune") {
		s = runeRe.ReplaceAllString(s, "int32")
	}
	typeKeyCache[t] = s
	return s
}

func isNamed(t types.Type, pkg, name string) bool {
	t = types.Unalias(t)
	n, ok := t.(*types.Named)
	if !ok {
		return false
	}
	o := n.Obj()
	return o.Pkg() != nil && o.Pkg().Path() == pkg && o.Name() == name
}

// modelLeaves returns the leaves of library types that are modelled abstractly.
func modelLeaves(t types.Type) ([]Leaf, bool) {
	t = types.Unalias(t)
	n, ok := t.(*types.Named)
	if !ok || n.Obj().Pkg() == nil {
		return nil, false
	}
	switch n.Obj().Pkg().Path() + "." + n.Obj().Name() {
	case "time.Time":
		return []Leaf{{"", sInt, kTime, t}}, true
	case "net/netip.Addr":
		return []Leaf{{"hi", sInt, kAddrHi, t}, {"lo", sInt, kAddrLo, t}, {"z", sInt, kAddrZ, t}}, true
	case "net/netip.AddrPort":
		return []Leaf{{"hi", sInt, kAddrHi, t}, {"lo", sInt, kAddrLo, t}, {"z", sInt, kAddrZ, t}, {"port", sInt, kInt, types.Typ[types.Uint16]}}, true
	case "sync.Mutex", "sync.RWMutex":
		return []Leaf{{"held", sBool, kBool, t}}, true
	case "sync.WaitGroup", "sync.Once", "golang.org/x/sync/errgroup.Group", "sync.noCopy":
		return []Leaf{}, true
	case "sync/atomic.Uint32", "sync/atomic.Int32", "sync/atomic.Uint64", "sync/atomic.Int64":
		return []Leaf{{"v", sInt, kInt, types.Typ[types.Int64]}}, true
	case "sync/atomic.Bool":
		return []Leaf{{"v", sBool, kBool, t}}, true
	}
	return nil, false
}

var leafCache = map[string][]Leaf{}

// leaves flattens a Go type into SMT-level components.
func leaves(t types.Type) []Leaf {
	k := typeKey(t)
	if l, ok := leafCache[k]; ok {
		return l
	}
	l := leaves0(t, 0)
	leafCache[k] = l
	return l
}

func leaves0(t types.Type, depth int) []Leaf {
	if depth > 12 {
		return nil
	}
	if m, ok := modelLeaves(t); ok {
		return m
	}
	switch u := t.Underlying().(type) {
	case *types.Basic:
		switch {
		case u.Info()&types.IsBoolean != 0:
			return []Leaf{{"", sBool, kBool, t}}
		case u.Info()&types.IsInteger != 0:
			return []Leaf{{"", sInt, kInt, t}}
		case u.Info()&types.IsFloat != 0:
			return []Leaf{{"", sReal, kReal, t}}
		case u.Info()&types.IsString != 0:
			return []Leaf{{"", sStr, kStr, t}}
		case u.Kind() == types.UnsafePointer:
			return []Leaf{{"", sInt, kRef, t}}
		case u.Kind() == types.UntypedNil:
			return []Leaf{{"", sInt, kRef, t}}
		}
		return nil
	case *types.Pointer, *types.Map, *types.Chan, *types.Signature:
		return []Leaf{{"", sInt, kRef, t}}
	case *types.Slice:
		return []Leaf{{"arr", sInt, kSlArr, t}, {"off", sInt, kSlOff, t}, {"len", sInt, kSlLen, t}, {"cap", sInt, kSlCap, t}}
	case *types.Interface:
		return []Leaf{{"tag", sInt, kIfTag, t}, {"ref", sInt, kIfRef, t}}
	case *types.Struct:
		var out []Leaf
		for i := 0; i < u.NumFields(); i++ {
			f := u.Field(i)
			for _, l := range leaves0(f.Type(), depth+1) {
				nm := f.Name()
				if l.Name != "" {
					nm += "." + l.Name
				}
				out = append(out, Leaf{nm, l.Sort, l.Kind, l.T})
			}
		}
		return out
	case *types.Array:
		// arrays held by value are opaque (not tracked); arrays reached via pointers use element heaps
		return nil
	case *types.Tuple:
		var out []Leaf
		for i := 0; i < u.Len(); i++ {
			for _, l := range leaves0(u.At(i).Type(), depth+1) {
				nm := fmt.Sprintf("%d", i)
				if l.Name != "" {
					nm += "." + l.Name
				}
				out = append(out, Leaf{nm, l.Sort, l.Kind, l.T})
			}
		}
		return out
	case *types.TypeParam:
		return nil
	}
	return nil
}

// fieldRange returns the [lo,hi) range of leaves occupied by field i of struct type t.
func fieldRange(t types.Type, i int) (int, int) {
	st := t.Underlying().(*types.Struct)
	lo := 0
	for j := 0; j < i; j++ {
		lo += len(leaves(st.Field(j).Type()))
	}
	return lo, lo + len(leaves(st.Field(i).Type()))
}

func tupleRange(t *types.Tuple, i int) (int, int) {
	lo := 0
	for j := 0; j < i; j++ {
		lo += len(leaves(t.At(j).Type()))
	}
	return lo, lo + len(leaves(t.At(i).Type()))
}

func intRange(t types.Type) (lo, hi string, ok bool) {
	b, isb := t.Underlying().(*types.Basic)
	if !isb {
		return "", "", false
	}
	switch b.Kind() {
	case types.Uint8:
		return "0", "255", true
	case types.Uint16:
		return "0", "65535", true
	case types.Uint32:
		return "0", "4294967295", true
	case types.Uint64, types.Uint, types.Uintptr:
		return "0", "18446744073709551615", true
	case types.Int8:
		return "(- 128)", "127", true
	case types.Int16:
		return "(- 32768)", "32767", true
	case types.Int32:
		return "(- 2147483648)", "2147483647", true
	case types.Int64, types.Int:
		return "(- 9223372036854775808)", "9223372036854775807", true
	}
	return "", "", false
}

// intBits returns bit width and signedness for wrap-around; ok=false means treated as unbounded.
func intBits(t types.Type) (bits uint, signed bool, ok bool) {
	b, isb := t.Underlying().(*types.Basic)
	if !isb {
		return 0, false, false
	}
	switch b.Kind() {
	case types.Uint8:
		return 8, false, true
	case types.Uint16:
		return 16, false, true
	case types.Uint32:
		return 32, false, true
	case types.Uint64, types.Uint, types.Uintptr:
		return 64, false, true
	case types.Int8:
		return 8, true, true
	case types.Int16:
		return 16, true, true
	case types.Int32:
		return 32, true, true
	case types.Int64, types.Int:
		return 64, true, false // unbounded by assumption A-INT64
	}
	return 0, false, false
}

// wrapInt applies Go's wrap-around for sized integer types.
func wrapInt(t types.Type, term string) string {
	bits, signed, ok := intBits(t)
	if !ok {
		return term
	}
	m := pow2(bits)
	if !signed {
		return app("mod", term, m)
	}
	h := pow2(bits - 1)
	return app("-", app("mod", app("+", term, h), m), h)
}

// rangeFacts returns the type invariant of a value given its leaves and terms.
func rangeFacts(ls []Leaf, terms []string, top string) string {
	var cs []string
	for i, l := range ls {
		x := terms[i]
		switch l.Kind {
		case kInt:
			if lo, hi, ok := intRange(l.T); ok {
				cs = append(cs, app("<=", lo, x), app("<=", x, hi))
			}
		case kIfRef:
			// may hold an unboxed integer: no constraint
		case kRef, kSlArr:
			cs = append(cs, app("<=", "0", x))
			if top != "" {
				cs = append(cs, app("<=", x, top))
			}
		case kIfTag:
			cs = append(cs, app("<=", "0", x))
		case kSlOff:
			cs = append(cs, app("<=", "0", x))
		case kSlLen:
			cs = append(cs, app("<=", "0", x))
		case kSlCap:
			// terms[i-1] is len, terms[i-3] is arr
			cs = append(cs, app("<=", terms[i-1], x), imp(eq(terms[i-3], "0"), eq(x, "0")))
		case kTime:
			cs = append(cs, app("<=", "0", x))
		case kAddrHi, kAddrLo:
			cs = append(cs, app("<=", "0", x), app("<=", x, "18446744073709551615"))
		case kAddrZ:
			// representation invariant of netip.Addr: the zero Addr is all zero, IPv4 is stored as ::ffff:a.b.c.d
			cs = append(cs, app("<=", "0", x), imp(eq(x, "0"), and(eq(terms[i-2], "0"), eq(terms[i-1], "0"))),
				imp(eq(x, "4"), and(eq(terms[i-2], "0"), app("<=", "281470681743360", terms[i-1]), app("<=", terms[i-1], "281474976710655"))), not(eq(x, "5")), app("<=", x, "1000000"))
		}
	}
	return and(cs...)
}

func zeroLeaf(l Leaf) string {
	switch l.Sort {
	case sBool:
		return "false"
	case sReal:
		return "0.0"
	case sStr:
		return "str_empty"
	}
	return "0"
}

func isPointer(t types.Type) bool {
	_, ok := t.Underlying().(*types.Pointer)
	return ok
}

func isStructType(t types.Type) bool {
	if _, ok := modelLeaves(t); ok {
		return false
	}
	_, ok := t.Underlying().(*types.Struct)
	return ok
}

func shortType(t types.Type) string {
	s := types.TypeString(t, func(p *types.Package) string { return p.Name() })
	return strings.ReplaceAll(s, " ", "")
}
