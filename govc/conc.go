package main

import (
	"fmt"
	"go/types"
	"strings"

	"golang.org/x/tools/go/ssa"
)

// ---------------------------------------------------------------------------------------------
// Concurrency layer (DESIGN §2.6): monitor invariants, per-goroutine frames, structured join.
// No interleavings are enumerated. A monitor invariant is assumed when its mutex is acquired and
// proved when it is released; state protected by the mutex is havoced at acquisition (other
// goroutines may have changed it). At a join every location a spawned closure might have written
// is havoced, monitor invariants are assumed (the locks are free) and the closures' `stable`
// postconditions are assumed (trusted spawn/join schema, A-JOIN).
// ---------------------------------------------------------------------------------------------

// mutexName gives the source-level name of a mutex operand (variable name or field name).
func mutexName(v ssa.Value) string {
	switch x := v.(type) {
	case *ssa.FreeVar:
		return x.Name()
	case *ssa.Alloc:
		return x.Comment
	case *ssa.FieldAddr:
		st := derefType(x.X.Type()).Underlying().(*types.Struct)
		return st.Field(x.Field).Name()
	case *ssa.Parameter:
		return x.Name()
	case *ssa.UnOp:
		// a *sync.Mutex held in a variable: the variable's name
		return mutexName(x.X)
	}
	return ""
}

// monitorsFor collects the monitors declared for fn, its lexical parents, and (for methods) the receiver type's methods.
func (ex *Exec) monitorsFor(fn *ssa.Function) []*Monitor {
	var out []*Monitor
	for f := fn; f != nil; f = f.Parent() {
		if c := ex.w.contracts[f]; c != nil {
			out = append(out, c.Monitors...)
		}
	}
	return out
}

func (ex *Exec) monitorEnter(c *callCtx, mu Val) {
	fr := c.fr
	if fr == nil || c.cc == nil || len(c.cc.Args) == 0 {
		return
	}
	name := mutexName(c.cc.Args[0])
	for _, m := range ex.monitorsFor(fr.fn) {
		if m.Mutex != name {
			continue
		}
		ex.used["monitor invariant on "+name+" (assumed at Lock, proved at Unlock)"] = true
		// other goroutines may have changed the protected state since we last held the lock
		for _, pn := range m.Protects {
			if strings.HasPrefix(pn, "ghost ") {
				// auxiliary variable owned by the monitor
				gn := strings.TrimSpace(strings.TrimPrefix(pn, "ghost "))
				if _, ok := ex.ghostGet(c.st, gn); !ok {
					panic(unsupported("monitor: undeclared ghost " + gn))
				}
				ex.setH(c.st, "X|"+gn, ex.freshConst("prot", ex.keySort["X|"+gn]))
				continue
			}
			ex.havocProtected(fr, pn, c.st)
		}
		if fr.lockSnap == nil {
			fr.lockSnap = map[string]*State{}
		}
		fr.lockSnap[name] = c.st.clone()
		for _, inv := range m.Invs {
			ex.assume(fr.evalClause(inv, fr.curBlk, c.st, nil))
		}
	}
}

func (ex *Exec) monitorExit(c *callCtx, mu Val) {
	fr := c.fr
	if fr == nil || c.cc == nil || len(c.cc.Args) == 0 {
		return
	}
	name := mutexName(c.cc.Args[0])
	for _, m := range ex.monitorsFor(fr.fn) {
		if m.Mutex != name {
			continue
		}
		// auxiliary updates and the guarantee of the releasing function
		if fc := ex.w.contracts[fr.fn]; fc != nil && ex.pure == 0 {
			for _, u := range fc.OnUnlock {
				if u.Mutex != name {
					continue
				}
				ex.pure++
				amt := fr.evalClauseVal(u.Expr, fr.curBlk, c.st)
				ex.pure--
				cur, ok := ex.ghostGet(c.st, u.Name)
				if !ok {
					panic(unsupported("onunlock: undeclared ghost " + u.Name))
				}
				ex.setH(c.st, "X|"+u.Name, ex.name("gupd", ite(c.r(), app("+", cur.L[0], amt), cur.L[0]), sInt))
				if fr.contrib == nil {
					fr.contrib = map[string]string{}
				}
				prev, have := fr.contrib[u.Name]
				if !have {
					prev = "0"
				}
				fr.contrib[u.Name] = ex.name("contrib", app("+", prev, ite(c.r(), amt, "0")), sInt)
			}
			for _, cl := range fc.AtUnlock {
				g := fr.evalClause(cl, fr.curBlk, c.st, nil)
				ex.oblige(fr.label("atunlock."+cl.Label), "ensures", cl.Props, imp(c.r(), g), cl.Pos, cl.Text)
			}
		}
		for _, inv := range m.Invs {
			g := fr.evalClause(inv, fr.curBlk, c.st, nil)
			ex.oblige(fr.label("monitor."+name+"."+inv.Label), "invariant", inv.Props, imp(c.r(), g), inv.Pos, inv.Text)
		}
	}
}

// havocProtected forgets the contents of a protected variable: elements of a slice, contents of a map,
// fields of a pointed-to struct, or the cell itself for scalars.
func (ex *Exec) havocProtected(fr *frame, name string, st *State) {
	n := 0
	ce := &cenv{ex: ex, pkg: fr.fn.Pkg, fr: fr, blk: fr.curBlk, vars: map[string]Val{}, st: st, old: fr.entry, nq: &n}
	if ce.pkg == nil && fr.fn.Parent() != nil {
		ce.pkg = fr.fn.Parent().Pkg
	}
	for i, p := range fr.fn.Params {
		ce.vars[p.Name()] = fr.args[i]
	}
	ex.pure++
	v, ok := ce.lookupVarOnly2(name)
	ex.pure--
	if !ok {
		panic(unsupported("monitor: cannot resolve protected variable " + name))
	}
	switch t := v.T.Underlying().(type) {
	case *types.Slice:
		for _, l := range leaves(t.Elem()) {
			key := "E|" + typeKey(t.Elem()) + "|" + l.Name
			srt := heapKeySort("E", l.Sort, "")
			h := ex.heapGet(st, key, srt)
			row := ex.freshConst("prot", arrSort(sInt, l.Sort))
			nh := sto(h, v.L[0], row)
			ex.heapSet(st, key, srt, nh)
			if l.Kind == kRef || l.Kind == kSlArr {
				ex.assume("(forall ((i!w Int)) (! (and (<= 0 (select " + row + " i!w)) (<= (select " + row + " i!w) " + st.Top + ")) :pattern ((select " + row + " i!w))))")
			}
		}
	case *types.Map:
		ks := mapKeySort(t)
		key := "MH|" + typeKey(t)
		srt := heapKeySort("MH", "", ks)
		h := ex.heapGet(st, key, srt)
		ex.heapSet(st, key, srt, sto(h, v.L[0], ex.freshConst("prot", arrSort(ks, sBool))))
		for _, l := range leaves(t.Elem()) {
			key := "MV|" + typeKey(t) + "|" + l.Name
			srt := heapKeySort("MV", l.Sort, ks)
			h := ex.heapGet(st, key, srt)
			ex.heapSet(st, key, srt, sto(h, v.L[0], ex.freshConst("prot", arrSort(ks, l.Sort))))
		}
	default:
		// a variable held in a cell: havoc the cell
		p, ok := ce.addrOfVar(name)
		if !ok {
			panic(unsupported("monitor: protected variable " + name + " has unsupported type " + v.T.String()))
		}
		nv := ex.freshVal(v.T, st, "prot")
		ex.store(st, p, nv)
	}
}

// lookupVarOnly2 resolves a (possibly dotted) name such as "results" or "s.sentProbes".
func (ce *cenv) lookupVarOnly2(name string) (Val, bool) {
	parts := splitDots(name)
	v, ok := ce.lookupIdentName(parts[0])
	if !ok {
		return Val{}, false
	}
	for _, f := range parts[1:] {
		v = ce.ex.selectField(ce.st, v, f, ce.pkg, func(msg string) { panic(unsupported("monitor: " + msg)) })
	}
	return v, true
}

func splitDots(s string) []string {
	var out []string
	cur := ""
	for _, c := range s {
		if c == '.' {
			out = append(out, cur)
			cur = ""
		} else {
			cur += string(c)
		}
	}
	return append(out, cur)
}

func (ce *cenv) lookupIdentName(name string) (Val, bool) {
	if v, ok := ce.vars[name]; ok {
		return v, true
	}
	if ce.fr != nil {
		if v, ok := ce.fr.lookupLocal(name, ce.blk, ce.st); ok {
			return v, true
		}
	}
	return Val{}, false
}

// addrOfVar returns the cell of a captured / address-taken variable.
func (ce *cenv) addrOfVar(name string) (Val, bool) {
	if ce.fr == nil {
		return Val{}, false
	}
	for i, fv := range ce.fr.fn.FreeVars {
		if fv.Name() == name {
			return ce.fr.bind[i], true
		}
	}
	if vs := ce.ex.w.localDefs(ce.fr.fn)[name]; len(vs) >= 1 {
		for _, d := range vs {
			if d.addr {
				if v, ok := ce.fr.vals[d.val]; ok {
					return v, true
				}
			}
		}
	}
	return Val{}, false
}

// ---------------------------------------------------------------------------------------------
// parent-local variables seen from a closure unit

// parentLocal returns a symbolic pointer standing for the parent function's variable `name`
// (one that this closure does not capture): contracts of closures may mention such variables
// when the facts about them are established before the spawn and the variable is never reassigned.
func (ex *Exec) parentLocal(fn *ssa.Function, name string) (Val, bool) {
	for p := fn.Parent(); p != nil; p = p.Parent() {
		for _, b := range p.Blocks {
			for _, ins := range b.Instrs {
				if a, ok := ins.(*ssa.Alloc); ok && a.Comment == name {
					if !ex.w.assignedOnce(p, a) {
						// a reassigned variable is still meaningful when a monitor protects it: it is read only while the
						// lock is held (havoced at acquisition), and a closure that does not capture it cannot change it
						prot := false
						if pc := ex.w.contracts[p]; pc != nil {
							for _, m := range pc.Monitors {
								for _, pn := range m.Protects {
									if pn == name {
										prot = true
									}
								}
							}
						}
						if !prot {
							panic(unsupported("closure contract mentions parent variable " + name + " which is reassigned"))
						}
					}
					sym := "pl!" + sanitize(p.Name()) + "!" + sanitize(name)
					if _, done := ex.declared[sym]; !done {
						ex.declare(sym, sInt)
						ex.preAssume = append(ex.preAssume, and(app("<=", "1", sym), app("<=", sym, "top!0")))
					}
					ex.used["closure unit reads parent variable "+name+" (assigned once before the spawn)"] = true
					return Val{T: a.Type(), L: []string{sym}}, true
				}
			}
		}
	}
	return Val{}, false
}

// assignedOnce: the variable held in alloc a is stored exactly once in its function and never by a closure.
func (w *World) assignedOnce(fn *ssa.Function, a *ssa.Alloc) bool {
	n := 0
	for _, ref := range *a.Referrers() {
		if st, ok := ref.(*ssa.Store); ok && st.Addr == ssa.Value(a) {
			n++
		}
	}
	if n > 1 {
		return false
	}
	ok := true
	var scan func(f *ssa.Function)
	scan = func(f *ssa.Function) {
		for _, anon := range f.AnonFuncs {
			// which free var of anon is bound to a?
			for _, b := range f.Blocks {
				for _, ins := range b.Instrs {
					mc, isMC := ins.(*ssa.MakeClosure)
					if !isMC || mc.Fn != ssa.Value(anon) {
						continue
					}
					for i, bv := range mc.Bindings {
						root := bv
						if root == ssa.Value(a) || (f != fn && isFreeVarOf(f, root, a, fn)) {
							if storesTo(anon, anon.FreeVars[i]) {
								ok = false
							}
						}
					}
				}
			}
			scan(anon)
		}
	}
	scan(fn)
	return ok
}

func isFreeVarOf(f *ssa.Function, v ssa.Value, a *ssa.Alloc, root *ssa.Function) bool {
	// conservative: nested re-capture is treated as potentially the same variable
	_, ok := v.(*ssa.FreeVar)
	return ok
}

func storesTo(f *ssa.Function, fv *ssa.FreeVar) bool {
	for _, b := range f.Blocks {
		for _, ins := range b.Instrs {
			st, ok := ins.(*ssa.Store)
			if !ok {
				continue
			}
			// the variable itself, or a field / array element inside it
			a := st.Addr
			for {
				if a == ssa.Value(fv) {
					return true
				}
				switch x := a.(type) {
				case *ssa.FieldAddr:
					a = x.X
					continue
				case *ssa.IndexAddr:
					if _, isPtr := x.X.Type().Underlying().(*types.Pointer); isPtr {
						a = x.X
						continue
					}
				}
				break
			}
		}
	}
	// a pointer into the variable handed to someone else (method with pointer receiver, argument) may be written through
	for _, ref := range *fv.Referrers() {
		if fa, ok := ref.(*ssa.FieldAddr); ok {
			for _, r2 := range *fa.Referrers() {
				switch r2.(type) {
				case *ssa.UnOp, *ssa.Store, *ssa.FieldAddr, *ssa.IndexAddr, *ssa.DebugRef:
				default:
					return true
				}
			}
		}
	}
	return false
}

// ---------------------------------------------------------------------------------------------
// spawn / join

type spawnRec struct {
	fn   *ssa.Function
	bind []Val
	at   *State // state at the spawn
	reach string
	joined []string // reach conditions of the joins that waited for it
	pos  string
}

// spawn registers a goroutine running closure value f (a MakeClosure): its preconditions are checked here.
// loopSpawns: does the loop body start goroutines?
func loopSpawns(body map[*ssa.BasicBlock]bool) bool {
	for b := range body {
		for _, ins := range b.Instrs {
			switch x := ins.(type) {
			case *ssa.Go:
				return true
			case *ssa.Call:
				if f := x.Call.StaticCallee(); f != nil && f.Name() == "Go" && f.Pkg != nil && f.Pkg.Pkg.Path() == "golang.org/x/sync/errgroup" {
					return true
				}
			}
		}
	}
	return false
}

// checkMonitorInit: before the first goroutine exists the monitor invariants are established by the spawner alone.
func (fr *frame) checkMonitorInit(st *State, reach string) {
	ex := fr.ex
	if fr.monInit || fr.c == nil || ex.pure > 0 {
		return
	}
	fr.monInit = true
	for _, m := range fr.c.Monitors {
		for _, inv := range m.Invs {
			g := fr.evalClause(inv, fr.curBlk, st, nil)
			ex.oblige(fr.label("monitor."+m.Mutex+"."+inv.Label+".init"), "invariant", inv.Props, imp(reach, g), inv.Pos, inv.Text)
		}
	}
}

func (fr *frame) spawnClosure(f Val, st *State, reach string, what string) {
	ex := fr.ex
	fr.checkMonitorInit(st, reach)
	if f.F == nil || f.F.Fn == nil {
		panic(unsupported("spawn of a non-static function value (" + what + ")"))
	}
	ex.used["A-JOIN: structured spawn/join schema ("+what+")"] = true
	callee := f.F.Fn
	if c := ex.w.contracts[callee]; c != nil {
		env := map[string]Val{}
		for i, fv := range callee.FreeVars {
			if i < len(f.F.Bind) {
				b := f.F.Bind[i]
				if _, isPtr := b.T.Underlying().(*types.Pointer); isPtr {
					env[fv.Name()] = ex.load(st, b)
				} else {
					env[fv.Name()] = b
				}
			}
		}
		for i, prm := range callee.Params {
			if i < len(fr.spawnArgs) {
				a := fr.spawnArgs[i]
				a.T = prm.Type()
				env[prm.Name()] = a
			}
		}
		for _, cl := range c.Requires {
			g := fr.evalClause(cl, fr.curBlk, st, env)
			ex.oblige(fr.label("spawn."+sanitize(c.Name)+"."+cl.Label), "requires-at-call", cl.Props, imp(reach, g), cl.Pos, cl.Text)
		}
		ex.calledContracts[c] = true
	} else {
		ex.used["spawned closure without contract: "+callee.String()] = true
	}
	{
		// history variable: how many goroutines running this closure have been started (nspawned("F$1"))
		nk := "X|nspawn." + callee.Name()
		ex.registerKey(nk, sInt)
		cur := ex.heapGet(st, nk, sInt)
		ex.setH(st, nk, ex.name("nspawn", ite(reach, app("+", cur, "1"), cur), sInt))
	}
	if c := ex.w.contracts[callee]; c != nil {
		for _, name := range sortedKeys(c.Contrib) {
			ex.bumpExpected(st, name, c.Contrib[name], reach)
		}
	}
	fr.spawned = append(fr.spawned, spawnRec{fn: callee, bind: f.F.Bind, at: st.clone(), reach: reach, pos: ex.posOf(callee.Pos())})
}

// Counter ghosts: a function that declares `contributes NAME N` adds exactly N to NAME in every execution (checked at
// its returns). The spawner accumulates what it is owed in expected(NAME); at the join, when every spawned goroutine
// has run to completion, NAME == expected(NAME).
func (ex *Exec) expectedGet(st *State, name string) string {
	if _, ok := ex.ghostGet(st, name); !ok {
		panic(unsupported("counter ghost " + name + " is not declared"))
	}
	key := "X|expect." + name
	ex.registerKey(key, sInt)
	return ex.heapGet(st, key, sInt)
}

func (ex *Exec) bumpExpected(st *State, name string, n int, reach string) {
	cur := ex.expectedGet(st, name)
	ex.setH(st, "X|expect."+name, ex.name("expect", ite(reach, app("+", cur, num(int64(n))), cur), sInt))
	ex.counters[name] = true
}

// join models Wait(): everything the spawned goroutines could have written is forgotten, variables that are
// assigned once keep their value, monitor invariants hold (all locks are free) and stable postconditions
// of the spawned closures are assumed.
func (fr *frame) join(st *State, reach string) {
	ex := fr.ex
	if ex.pure > 0 {
		return
	}
	// variables of this function that nobody reassigns keep their contents
	type saved struct {
		p Val
		v Val
	}
	var keep []saved
	for _, b := range fr.fn.Blocks {
		for _, ins := range b.Instrs {
			a, ok := ins.(*ssa.Alloc)
			if !ok {
				continue
			}
			pv, have := fr.vals[a]
			if !have || !ex.w.assignedOnce(fr.fn, a) {
				continue
			}
			if _, isArr := a.Type().Underlying().(*types.Pointer).Elem().Underlying().(*types.Array); isArr {
				continue
			}
			keep = append(keep, saved{pv, ex.load(st, pv)})
		}
	}
	clock, _ := ex.ghostGet(st, "clock")
	// what the goroutines may have written: the union of their modifies clauses when every one of them has a precise
	// frame, everything otherwise
	precise := len(fr.spawned) > 0
	for _, sp := range fr.spawned {
		c := ex.w.contracts[sp.fn]
		if c == nil || !c.HasMod || len(sp.fn.Params) > 0 && modifiesMentionsParams(c, sp.fn) {
			precise = false
			break
		}
		for _, m := range c.Modifies {
			if strings.TrimSpace(m) == "*" {
				precise = false
			}
		}
	}
	if precise {
		func() {
			defer func() {
				if r := recover(); r != nil {
					if _, isU := r.(unsupportedErr); isU {
						precise = false
						return
					}
					panic(r)
				}
			}()
			for _, sp := range fr.spawned {
				c := ex.w.contracts[sp.fn]
				// the closure's free variables are the spawner's own locals of the same name
				env := map[string]Val{}
				saved := ex.callerFrame
				ex.callerFrame = fr
				defer func() { ex.callerFrame = saved }()
				var heapOnly Contract = *c
				heapOnly.Modifies = nil
				for _, m := range c.Modifies {
					if !strings.HasPrefix(strings.TrimSpace(m), "ghost ") {
						heapOnly.Modifies = append(heapOnly.Modifies, m)
					}
				}
				ex.applyModifies(&heapOnly, env, st)
			}
			ex.used["join: only the locations named by the spawned closures' modifies clauses are forgotten"] = true
		}()
	}
	if !precise {
		ex.havocAll(st, "join with spawned goroutines")
	}
	// ghost state written by the goroutines is forgotten as well (the clock only moves forward)
	// framed ghost variables change only if a spawned closure declares them (closures without a contract: all of them)
	declared := map[string]bool{}
	anyUnknown := false
	for _, sp := range fr.spawned {
		c := ex.w.contracts[sp.fn]
		if c == nil || !c.HasMod {
			anyUnknown = true
			continue
		}
		for _, m := range c.Modifies {
			if strings.HasPrefix(m, "ghost ") {
				declared["X|"+strings.TrimSpace(strings.TrimPrefix(m, "ghost "))] = true
			}
		}
	}
	for _, k := range sortedKeys(ex.keySort) {
		srt := ex.keySort[k]
		if len(k) > 2 && k[:2] == "X|" && k != "X|ctx.parent" && k != "X|ctx.cancels" {
			if ghostFramed[k] && !anyUnknown && !declared[k] {
				continue
			}
			if strings.HasPrefix(k, "X|expect.") || strings.HasPrefix(k, "X|ncalls.") || strings.HasPrefix(k, "X|nspawn.") {
				continue // bookkeeping of this goroutine only
			}
			if ex.counters[k[2:]] {
				// every spawned goroutine has finished: the counter has received all contributions
				ex.setH(st, k, ex.expectedGet(st, k[2:]))
				ex.used["A-JOIN: counter ghost "+k[2:]+" equals the sum of the contributions of the joined goroutines"] = true
				continue
			}
			ex.setH(st, k, ex.freshConst("jg", srt))
		}
	}
	nc, _ := ex.ghostGet(st, "clock")
	ex.assume(app("<=", clock.L[0], nc.L[0]))
	for _, s := range keep {
		ex.store(st, s.p, s.v)
	}
	if fr.c != nil {
		for _, m := range fr.c.Monitors {
			for _, inv := range m.Invs {
				ex.assume(fr.evalClause(inv, fr.curBlk, st, nil))
			}
		}
	}
	// stable postconditions of the spawned closures (exclusive-writer facts), old = state at the spawn
	for _, sp := range fr.spawned {
		c := ex.w.contracts[sp.fn]
		if c == nil {
			continue
		}
		for _, cl := range c.Ensures {
			if !c.Stable[cl.Label] {
				continue
			}
			env := map[string]Val{}
			for i, fv := range sp.fn.FreeVars {
				if i < len(sp.bind) {
					b := sp.bind[i]
					if _, isPtr := b.T.Underlying().(*types.Pointer); isPtr {
						env[fv.Name()] = ex.load(st, b)
					} else {
						env[fv.Name()] = b
					}
				}
			}
			res := sp.fn.Signature.Results()
			for i := 0; i < res.Len(); i++ {
				env[fmt.Sprintf("ret%d", i)] = ex.freshVal(res.At(i).Type(), st, "jr")
			}
			savedEntry := fr.entry
			fr.entry = sp.at
			g := fr.evalClause(cl, fr.curBlk, st, env)
			fr.entry = savedEntry
			ex.assume(g)
			ex.used["TRUSTED join: stable postcondition "+c.Name+"#"+cl.Label+" assumed after Wait"] = true
		}
	}
	for _, sp := range fr.spawned {
		sp.joined = append(sp.joined, reach)
		fr.joinedRecs = append(fr.joinedRecs, sp)
	}
	fr.spawned = nil
}

// checkContrib: a function that declares contributions has made exactly those when it returns.
func (fr *frame) checkContrib(reach string) {
	ex := fr.ex
	if fr.c == nil || !fr.top {
		return
	}
	for _, name := range sortedKeys(fr.c.Contrib) {
		got, ok := fr.contrib[name]
		if !ok {
			got = "0"
		}
		ex.oblige(fr.label("contributes."+name), "ensures", propsOfSafety(fr.c), imp(reach, eq(got, num(int64(fr.c.Contrib[name])))), fr.c.Pos, fmt.Sprintf("every execution adds exactly %d to %s", fr.c.Contrib[name], name))
	}
}

func propsOfSafety(c *Contract) []string { return c.Safety }

// checkJoined: at a return of the spawning function every goroutine it started has been waited for (C10: no goroutine
// started by the run outlives the call).
func (fr *frame) checkJoined(reach string) {
	ex := fr.ex
	for _, sp := range fr.spawned {
		ex.oblige(fr.label("goroutine.joined."+sanitize(sp.fn.Name())), "assert", []string{"C10"}, imp(reach, not(sp.reach)), sp.pos, "goroutine "+sp.fn.Name()+" is never waited for before this return")
	}
	for _, sp := range fr.joinedRecs {
		ex.oblige(fr.label("goroutine.joined."+sanitize(sp.fn.Name())), "assert", []string{"C10"}, imp(and(reach, sp.reach), or(sp.joined...)), sp.pos, "goroutine "+sp.fn.Name()+" must be waited for on every path to a return")
	}
}

func init() {
	reg("golang.org/x/sync/errgroup.WithContext", func(c *callCtx) Val {
		ex := c.ex
		g := ex.alloc(c.st)
		child := ex.newCtx(c.st, c.args[0], "*context.cancelCtx")
		return Val{L: []string{g, child.L[0], child.L[1]}}
	})
	reg("(*golang.org/x/sync/errgroup.Group).Go", func(c *callCtx) Val {
		if c.fr != nil {
			c.fr.spawnClosure(c.args[1], c.st, c.r(), "errgroup.Go")
		}
		return Val{}
	})
	reg("(*golang.org/x/sync/errgroup.Group).Wait", func(c *callCtx) Val {
		ex := c.ex
		if c.fr != nil {
			c.fr.join(c.st, c.r())
		}
		e := ex.freshVal(errorT(), c.st, "gwait")
		return e
	})
	reg("(*sync.WaitGroup).Add", func(c *callCtx) Val { return Val{} })
	reg("(*sync.WaitGroup).Done", func(c *callCtx) Val { return Val{} })
	reg("(*sync.WaitGroup).Wait", func(c *callCtx) Val {
		if c.fr != nil {
			c.fr.join(c.st, c.r())
		}
		return Val{}
	})
	reg("(*sync.Once).Do", func(c *callCtx) Val {
		// f runs at most once: executed here under an arbitrary condition
		ex := c.ex
		f := c.args[1]
		if f.F == nil || f.F.Fn == nil || c.fr == nil {
			ex.used["sync.Once.Do with a non-static function: effect ignored"] = true
			return Val{}
		}
		cond := ex.freshConst("once", sBool)
		st2 := c.st.clone()
		r2 := ex.name("oncer", and(c.r(), cond), sBool)
		ex.callFn(c.fr, f.F.Fn, nil, f.F.Bind, st2, &r2, c.instr, nil)
		m := ex.mergeStates([]string{cond}, []*State{st2, c.st})
		*c.st = *m
		return Val{}
	})
}

// atlockCallee: the state a callee observed when it took its monitor lock, from the caller's point of view:
// everything the monitor protects may have been changed by other goroutines, so the whole heap is unknown.
func (ex *Exec) atlockCallee(pre *State) *State {
	s := pre.clone()
	saved := ex.pure
	ex.pure = 0
	keepDiscover := ex.discover
	_ = keepDiscover
	s.H = map[string]string{}
	for k, v := range pre.H {
		if len(k) > 2 && k[:2] == "X|" {
			s.H[k] = v
		}
	}
	s.Base = ex.newHavocBase(pre.Top)
	ex.pure = saved
	return s
}

// modifiesMentionsParams: does a modifies item of closure contract c refer to one of the closure's parameters?
func modifiesMentionsParams(c *Contract, fn *ssa.Function) bool {
	for _, m := range c.Modifies {
		for _, prm := range fn.Params {
			if strings.Contains(m, prm.Name()) {
				return true
			}
		}
	}
	return false
}
