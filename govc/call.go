package main

import (
	"fmt"
	"go/ast"
	"go/parser"
	"go/token"
	"go/types"
	"sort"
	"strconv"
	"strings"

	"golang.org/x/tools/go/ssa"
)

type callCtx struct {
	ex    *Exec
	fr    *frame
	fn    *ssa.Function
	name  string
	args  []Val
	bind  []Val
	st    *State
	reach *string
	instr ssa.Instruction
	res   *types.Tuple
	cc    *ssa.CallCommon
}

func fnKey(fn *ssa.Function) string {
	if o := fn.Origin(); o != nil {
		return o.String()
	}
	return fn.String()
}

func tupleVal(t *types.Tuple, vs []Val) Val {
	if t.Len() == 1 {
		v := vs[0]
		v.T = t.At(0).Type()
		return v
	}
	out := Val{T: t}
	for _, v := range vs {
		out.L = append(out.L, v.L...)
	}
	return out
}

// call executes an SSA call instruction (also used for defer).
func (fr *frame) call(cc *ssa.CallCommon, st *State, reach *string, instr ssa.Instruction) Val {
	ex := fr.ex
	if fr.c != nil && fr.c.Before != nil && ex.pure == 0 {
		name := ""
		if cc.IsInvoke() {
			name = cc.Method.Name()
		} else if f := cc.StaticCallee(); f != nil {
			name = f.Name()
		}
		for key, cls := range fr.c.Before {
			// "before SendProbe" and "before TracerouteDriver.SendProbe" both name the method SendProbe
			// "before F#2": only the second call site of F in this function, in source order
			base, ord := key, 0
			if i := strings.LastIndex(key, "#"); i >= 0 {
				if n, err := strconv.Atoi(key[i+1:]); err == nil {
					base, ord = key[:i], n
				}
			}
			short := base
			if i := strings.LastIndex(base, "."); i >= 0 {
				short = base[i+1:]
			}
			if name == "" || (base != name && short != name) {
				continue
			}
			if ord > 0 && callSiteOrdinal(fr.fn, instr, name) != ord {
				continue
			}
			if ex.beforeHit == nil {
				ex.beforeHit = map[string]bool{}
			}
			ex.beforeHit[key] = true
			// callarg0, callarg1, …: the arguments of the call about to be made (receiver not counted)
			extra := map[string]Val{}
			cargs := cc.Args
			if !cc.IsInvoke() && cc.Signature().Recv() != nil && len(cargs) > 0 {
				cargs = cargs[1:]
			}
			for i, a := range cargs {
				v := fr.val(a)
				v.T = a.Type()
				extra[fmt.Sprintf("callarg%d", i)] = v
			}
			for _, cl := range cls {
				g := fr.evalClause(cl, instr.Block(), st, extra)
				ex.oblige(fr.label("before."+name+"."+cl.Label), "assert", cl.Props, imp(*reach, g), cl.Pos, cl.Text)
			}
		}
	}
	args := make([]Val, 0, len(cc.Args)+1)
	if cc.IsInvoke() {
		recv := fr.val(cc.Value)
		for _, a := range cc.Args {
			args = append(args, fr.val(a))
		}
		if _, isCall := instr.(*ssa.Call); isCall {
			fr.safety(instr, *reach, not(eq(recv.L[0], "0")), "method call on nil interface: "+cc.Method.Name())
		}
		return ex.invoke(fr, recv, cc.Method, args, st, reach, instr, cc)
	}
	for _, a := range cc.Args {
		args = append(args, fr.val(a))
	}
	switch callee := cc.Value.(type) {
	case *ssa.Builtin:
		return fr.builtin(callee, cc, args, st, *reach, instr)
	case *ssa.Function:
		return ex.callFn(fr, callee, args, nil, st, reach, instr, cc)
	case *ssa.MakeClosure:
		cv := fr.val(callee)
		return ex.callFn(fr, cv.F.Fn, args, cv.F.Bind, st, reach, instr, cc)
	}
	fv := fr.val(cc.Value)
	if fv.F != nil && fv.F.Fn != nil {
		return ex.callFn(fr, fv.F.Fn, args, fv.F.Bind, st, reach, instr, cc)
	}
	// a call through a captured variable that holds a closure assigned exactly once in the enclosing function
	if ld, ok := cc.Value.(*ssa.UnOp); ok {
		if v, ok := ld.X.(*ssa.FreeVar); ok {
			if callee := ex.w.closureStoredIn(fr.fn, v.Name()); callee != nil {
				if c := ex.w.contracts[callee]; c != nil && !c.Inline {
					ex.used["call through captured variable "+v.Name()+" resolved to "+callee.Name()] = true
					return ex.callContractClosure(c, callee, args, st, reach, fr)
				}
				panic(unsupported("call through captured variable " + v.Name() + ": callee " + callee.Name() + " needs a contract"))
			}
		}
	}
	// abstract function value
	return ex.callAbstract(fr, fv, cc, args, st, reach)
}

// callAbstract models a call through an unknown function value.
func (ex *Exec) callAbstract(fr *frame, fv Val, cc *ssa.CallCommon, args []Val, st *State, reach *string) Val {
	sig := cc.Signature()
	name := "fn"
	if fv.F != nil && fv.F.Abstract != "" {
		name = fv.F.Abstract
	} else if p, ok := cc.Value.(*ssa.Parameter); ok {
		name = p.Name()
	}
	if isNamed(cc.Value.Type(), "context", "CancelFunc") {
		// cancelling marks the associated context (and, through ctx.parent, its descendants) done
		if ex.pure == 0 && len(fv.L) == 1 {
			ex.registerKey("X|ctx.cancels", arrSort(sInt, sInt))
			target := sel(ex.heapGet(st, "X|ctx.cancels", arrSort(sInt, sInt)), fv.L[0])
			done := ex.ctxDone(st)
			r := "true"
			if reach != nil {
				r = *reach
			}
			ex.setH(st, "X|ctx.done", ex.name("ctxdone", ite(r, sto(done, target, "true"), done), arrSort(sInt, sBool)))
		}
		return Val{T: sig.Results()}
	}
	// a callback of unknown behaviour must not run while this function holds a lock it took itself: whatever the callback
	// blocks on (a stalled resolver, an HTTP exchange), every other user of that mutex then blocks with it — the calls
	// are serialised behind one another's timeouts (C08), and a callback that re-enters deadlocks (C14)
	if fr != nil && reach != nil && ex.pure == 0 && !ex.discover {
		seenLock := map[string]bool{}
		var gs []string
		for _, p := range ex.lockSites {
			key := fmt.Sprint(p.L, ptrInfoOf(p).Kind, typeKey(ptrInfoOf(p).Root), ptrInfoOf(p).Path)
			if seenLock[key] {
				continue
			}
			seenLock[key] = true
			gs = append(gs, not(ex.load(st, p).L[0]))
		}
		if len(gs) > 0 {
			pos := ex.posOf(cc.Pos())
			ex.oblige(fr.label("callback.nolock."+sanitize(name)), "assert", []string{"C08", "C14"}, imp(*reach, and(gs...)), pos, "function value "+name+" is called while a mutex locked by this function is held")
		}
	}
	// ghost call counter
	ck := "X|calls." + name
	ex.registerKey(ck, sInt)
	cur := ex.heapGet(st, ck, sInt)
	ex.havocAll(st, "call through function value "+name)
	ex.setH(st, ck, ex.name("calls", ite(*reach, app("+", cur, "1"), cur), sInt))
	ex.used["abstract function value: "+name] = true
	var vs []Val
	for i := 0; i < sig.Results().Len(); i++ {
		v := ex.freshVal(sig.Results().At(i).Type(), st, "res_"+name)
		vs = append(vs, v)
		// remember the results of the (last) call through this value for specifications
		for j, l := range v.L {
			rk := fmt.Sprintf("X|result.%s.%d.%d", name, i, j)
			srt := sInt
			if ls := leaves(v.T); j < len(ls) {
				srt = ls[j].Sort
			}
			ex.registerKey(rk, srt)
			prev := ex.heapGet(st, rk, srt)
			ex.setH(st, rk, ite(*reach, l, prev))
		}
	}
	if sig.Results().Len() == 0 {
		return Val{T: sig.Results()}
	}
	return tupleVal(sig.Results(), vs)
}

func (ex *Exec) inRepo(fn *ssa.Function) bool {
	p := fn.Pkg
	if p == nil && fn.Parent() != nil {
		return ex.inRepo(fn.Parent())
	}
	if p == nil {
		if o := fn.Origin(); o != nil {
			return ex.inRepo(o)
		}
		// synthetic wrappers: decide by receiver / object package
		if fn.Object() != nil && fn.Object().Pkg() != nil {
			return strings.HasPrefix(fn.Object().Pkg().Path(), ex.w.module)
		}
		return false
	}
	return strings.HasPrefix(p.Pkg.Path(), ex.w.module)
}

// callFn dispatches a static call: library handler, contract, inlining, or havoc.
func (ex *Exec) callFn(fr *frame, fn *ssa.Function, args []Val, bind []Val, st *State, reach *string, instr ssa.Instruction, cc *ssa.CallCommon) Val {
	key := fnKey(fn)
	res := fn.Signature.Results()
	ctx := &callCtx{ex: ex, fr: fr, fn: fn, name: key, args: args, bind: bind, st: st, reach: reach, instr: instr, res: res, cc: cc}
	if h, ok := libHandlers[key]; ok {
		ex.used["libspec: "+key] = true
		v := h(ctx)
		v.T = resType(res)
		return v
	}
	if fnPkgPath(fn) == ex.w.module+"/log" {
		ex.used["A-LOG: log calls have no effect on tracked state"] = true
		return ex.freshResults(ctx, false)
	}
	if c := ex.w.contracts[fn]; c != nil && c.Pure && ex.pure > 0 && len(c.Ensures) > 0 {
		// a pure function with a defining postcondition "ret0 == E": specifications use the definition
		if be, ok := c.Ensures[0].Expr.(*ast.BinaryExpr); ok && be.Op == token.EQL {
			if id, ok := be.X.(*ast.Ident); ok && id.Name == "ret0" {
				env := map[string]Val{}
				for i, p := range fn.Params {
					env[p.Name()] = args[i]
				}
				n := 0
				ce := &cenv{ex: ex, pkg: c.Pkg, vars: env, st: st, old: st, nq: &n}
				v := ce.eval(be.Y)
				v = ce.coerce(v, res.At(0).Type())
				v.T = res.At(0).Type()
				return v
			}
		}
	}
	if c := ex.w.contracts[fn]; c != nil && !c.Inline && (len(c.Requires)+len(c.Ensures) > 0 || c.HasMod || c.Trusted) && ex.pure == 0 {
		if !(c.Trusted && len(fn.Blocks) > 0 && ex.inRepo(fn) && len(c.Ensures) == 0) {
			return ex.callContract(c, fn.Params, fn.Signature, args, st, reach, fr)
		}
	}
	if len(fn.Blocks) > 0 && (ex.inRepo(fn) || fn.Synthetic != "" || inlineLib[key] || inlinePkgs[fnPkgPath(fn)]) {
		if !ex.inRepo(fn) && fn.Synthetic == "" {
			ex.used["dependency executed from its source (not assumed): "+key] = true
		}
		depth := 0
		site := ""
		var outer []string
		if fr != nil {
			depth = fr.depth + 1
			site = fr.site + "@" + shortFn(fn) + "."
			outer = ex.loopStack
		}
		saved := ex.loopStack
		r := "true"
		if reach != nil && ex.pure == 0 {
			r = *reach
		}
		savedReach := ex.curReach
		rets, out, rr := ex.execFunc(fn, args, bind, st, r, depth, false, site, outer)
		ex.loopStack = saved
		ex.curReach = savedReach
		*st = *out
		if reach != nil && rr != "false" {
			*reach = ex.name("reach", and(*reach, rr), sBool)
		} else if reach != nil && rr == "false" {
			*reach = "false"
		}
		if res.Len() == 0 {
			return Val{T: res}
		}
		if rets == nil {
			// never returns: produce arbitrary values under false reach
			var vs []Val
			for i := 0; i < res.Len(); i++ {
				vs = append(vs, zeroVal(res.At(i).Type()))
			}
			return tupleVal(res, vs)
		}
		return tupleVal(res, rets)
	}
	return ex.callUnknown(ctx)
}

func fnPkgPath(fn *ssa.Function) string {
	if fn.Pkg != nil {
		return fn.Pkg.Pkg.Path()
	}
	if o := fn.Origin(); o != nil && o.Pkg != nil {
		return o.Pkg.Pkg.Path()
	}
	if fn.Parent() != nil {
		return fnPkgPath(fn.Parent())
	}
	return ""
}

func resType(res *types.Tuple) types.Type {
	if res.Len() == 1 {
		return res.At(0).Type()
	}
	return res
}

func shortFn(fn *ssa.Function) string {
	s := fn.Name()
	if fn.Signature.Recv() != nil {
		s = shortType(derefType(fn.Signature.Recv().Type())) + "." + s
	}
	return sanitize(s)
}

// callUnknown havocs results and, unless the callee is known to be effect-free, the heap.
func (ex *Exec) callUnknown(c *callCtx) Val {
	key := c.name
	pkgPath := ""
	if c.fn.Pkg != nil {
		pkgPath = c.fn.Pkg.Pkg.Path()
	} else if o := c.fn.Origin(); o != nil && o.Pkg != nil {
		pkgPath = o.Pkg.Pkg.Path()
	}
	if pkgPath == ex.w.module+"/log" {
		ex.used["A-LOG: log calls have no effect on tracked state"] = true
		return ex.freshResults(c, false)
	}
	if pureLib[key] || purePkgs[pkgPath] {
		ex.used["pure-lib (result unconstrained, no heap effect): "+key] = true
		return ex.freshResults(c, true)
	}
	ex.used["UNMODELLED call (heap havoc): "+key] = true
	if ex.pure == 0 {
		ex.havocAll(c.st, "unmodelled call "+key)
	}
	return ex.freshResults(c, true)
}

// freshResults returns unconstrained results; external errors carry no repo error types (A-EXTERR).
func (ex *Exec) freshResults(c *callCtx, exterr bool) Val {
	if c.res.Len() == 0 {
		return Val{T: c.res}
	}
	var vs []Val
	for i := 0; i < c.res.Len(); i++ {
		t := c.res.At(i).Type()
		v := ex.freshVal(t, c.st, "ext")
		if exterr && isErrorType(t) {
			ex.assumeExternalError(v)
		}
		vs = append(vs, v)
	}
	return tupleVal(c.res, vs)
}

func isErrorType(t types.Type) bool {
	return types.Identical(t, types.Universe.Lookup("error").Type())
}

// callPure calls a function during specification evaluation (inlined, no obligations).
func (ex *Exec) callPure(fn *ssa.Function, args []Val, bind []Val, st *State) Val {
	s2 := st.clone()
	return ex.callFn(nil, fn, args, bind, s2, nil, nil, nil)
}

// invoke handles interface method calls.
func (ex *Exec) invoke(fr *frame, recv Val, m *types.Func, args []Val, st *State, reach *string, instr ssa.Instruction, cc *ssa.CallCommon) Val {
	sig := m.Type().(*types.Signature)
	key := ifaceMethodKey(recv.T, m)
	if c, ok := ex.w.ifaceContracts[key]; ok && ex.pure == 0 {
		// parameters: receiver named "self" plus declared parameter names
		var params []*types.Var
		params = append(params, types.NewVar(0, nil, "self", recv.T))
		for i := 0; i < sig.Params().Len(); i++ {
			params = append(params, sig.Params().At(i))
		}
		return ex.callContractVars(c, params, sig, append([]Val{recv}, args...), st, reach, fr)
	}
	ctx := &callCtx{ex: ex, fr: fr, name: key, args: append([]Val{recv}, args...), st: st, reach: reach, instr: instr, res: sig.Results(), cc: cc}
	if h, ok := libHandlers[key]; ok {
		ex.used["libspec: "+key] = true
		v := h(ctx)
		v.T = resType(sig.Results())
		return v
	}
	if m.Name() == "Error" && sig.Params().Len() == 0 {
		return ex.freshValNoHeap(sig.Results(), st)
	}
	ex.used["UNMODELLED interface call (heap havoc): "+key] = true
	if ex.pure == 0 {
		ex.havocAll(st, "unmodelled interface call "+key)
	}
	return ex.freshValNoHeap(sig.Results(), st)
}

func (ex *Exec) freshValNoHeap(res *types.Tuple, st *State) Val {
	if res.Len() == 0 {
		return Val{T: res}
	}
	var vs []Val
	for i := 0; i < res.Len(); i++ {
		v := ex.freshVal(res.At(i).Type(), st, "ext")
		if isErrorType(res.At(i).Type()) {
			ex.assumeExternalError(v)
		}
		vs = append(vs, v)
	}
	return tupleVal(res, vs)
}

func (ex *Exec) invokePure(recv Val, m *types.Func, args []Val, st *State) Val {
	s2 := st.clone()
	return ex.invoke(nil, recv, m, args, s2, nil, nil, nil)
}

func ifaceMethodKey(t types.Type, m *types.Func) string {
	t = types.Unalias(t)
	if n, ok := t.(*types.Named); ok && n.Obj().Pkg() != nil {
		return n.Obj().Pkg().Path() + "." + n.Obj().Name() + "." + m.Name()
	}
	if n, ok := t.(*types.Named); ok {
		return n.Obj().Name() + "." + m.Name() // error
	}
	return "iface." + m.Name()
}

// callContractClosure calls a sibling closure by contract: names of the enclosing function's variables in the
// callee's clauses resolve in the caller's frame (captured variables, or parent-local symbols).
func (ex *Exec) callContractClosure(c *Contract, callee *ssa.Function, args []Val, st *State, reach *string, fr *frame) Val {
	var vars []*types.Var
	for _, p := range callee.Params {
		vars = append(vars, types.NewVar(0, nil, p.Name(), p.Type()))
	}
	ex.callerFrame = fr
	defer func() { ex.callerFrame = nil }()
	return ex.callContractVars(c, vars, callee.Signature, args, st, reach, fr)
}

// callContract performs a modular call: check requires, havoc the frame, assume ensures.
func (ex *Exec) callContract(c *Contract, params []*ssa.Parameter, sig *types.Signature, args []Val, st *State, reach *string, fr *frame) Val {
	var vars []*types.Var
	for _, p := range params {
		vars = append(vars, types.NewVar(0, nil, p.Name(), p.Type()))
	}
	return ex.callContractVars(c, vars, sig, args, st, reach, fr)
}

func (ex *Exec) callContractVars(c *Contract, params []*types.Var, sig *types.Signature, args []Val, st *State, reach *string, fr *frame) Val {
	env := map[string]Val{}
	for i, p := range params {
		if i < len(args) {
			a := args[i]
			a.T = p.Type()
			if a.P != nil && !a.P.clean() {
				panic(unsupported("interior pointer passed to contract call " + c.Name))
			}
			env[p.Name()] = a
		}
	}
	ex.used["contract: "+c.Name] = true
	if ex.pure == 0 {
		// history variables: the arguments of the most recent call are observable as lastarg(fn, param)
		r0 := "true"
		if reach != nil {
			r0 = *reach
		}
		for i, p := range params {
			if i >= len(args) {
				break
			}
			ex.lastArgTypes[c.Name+"."+p.Name()] = p.Type()
			ls := leaves(p.Type())
			for j, l := range ls {
				if j >= len(args[i].L) {
					break
				}
				rk := fmt.Sprintf("X|lastarg.%s.%s.%d", c.Name, p.Name(), j)
				ex.registerKey(rk, l.Sort)
				prev := ex.heapGet(st, rk, l.Sort)
				ex.setH(st, rk, ex.name("larg", ite(r0, args[i].L[j], prev), l.Sort))
			}
		}
	}
	if c.Trusted {
		why := c.TrustWhy
		if why == "" {
			why = "assumed contract"
		}
		ex.used["TRUSTED contract: "+c.Name+" ("+why+")"] = true
	}
	ex.calledContracts[c] = true
	r := "true"
	if reach != nil {
		r = *reach
	}
	for _, cl := range c.Requires {
		g := ex.evalCallClause(c, cl, env, st, st)
		lbl := "pre." + sanitize(c.Name) + "." + cl.Label
		if fr != nil {
			lbl = fr.label(lbl)
		}
		if tf := ex.topFrame; tf != nil && tf.c != nil && tf.c.TrustPre != nil {
			short := c.Name
			if i := strings.LastIndex(short, "."); i >= 0 {
				short = short[i+1:]
			}
			if tp := tf.c.TrustPre[short]; tp != nil && tp[cl.Label] {
				ex.assume(imp(r, g))
				ex.used["ASSUMED precondition of "+c.Name+" ["+cl.Label+"] in "+ex.unit.Name+": "+tf.c.TrustPreWhy[short]] = true
				continue
			}
		}
		ex.oblige(lbl, "requires-at-call", cl.Props, imp(r, g), cl.Pos, cl.Text)
	}
	old := st.clone()
	ex.applyModifies(c, env, st)
	res := sig.Results()
	var vs []Val
	for i := 0; i < res.Len(); i++ {
		v := ex.freshVal(res.At(i).Type(), st, "cr_"+sanitize(c.Name))
		vs = append(vs, v)
		env[fmt.Sprintf("ret%d", i)] = v
		if n := res.At(i).Name(); n != "" && n != "_" {
			env[n] = v
		}
	}
	if ex.pure == 0 {
		// history counters the callee's postconditions speak about (goroutines it started, calls it made) are advanced
		// by the callee: they are forgotten (monotonically) before its postconditions are assumed. Without this a
		// postcondition "nspawned(F$1) == old(nspawned(F$1)) + n" would contradict the caller's unchanged counter.
		for _, k := range historyCounterKeys(c) {
			ex.registerKey(k, sInt)
			prev := ex.heapGet(st, k, sInt)
			nv := ex.freshConst("hist", sInt)
			ex.assume(app("<=", prev, nv))
			ex.setH(st, k, ite(r, nv, prev))
		}
	}
	for _, cl := range c.AssumedEnsures {
		if g, ok := ex.tryCallClause(c, cl, env, st, old); ok {
			ex.assume(imp(r, g))
			ex.used["ASSUMED postcondition "+c.Name+"["+cl.Label+"]: not proved on the function's body"] = true
		}
	}
	for _, cl := range c.Ensures {
		g, ok := ex.tryCallClause(c, cl, env, st, old)
		if !ok {
			// the clause speaks about the callee's own locals or auxiliary variables: it is proved for the callee but
			// gives the caller nothing (knowing less is sound)
			ex.used["postcondition "+c.Name+"["+cl.Label+"] mentions callee-local state: not assumed at call sites"] = true
			continue
		}
		ex.assume(imp(r, g))
	}
	if ex.pure == 0 {
		// history variables: number of contract calls of c and the results of the most recent one
		nk := "X|ncalls." + c.Name
		ex.registerKey(nk, sInt)
		prevN := ex.heapGet(st, nk, sInt)
		ex.setH(st, nk, ex.name("ncalls", ite(r, app("+", prevN, "1"), prevN), sInt))
		for i, v := range vs {
			ex.lastResTypes[fmt.Sprintf("%s.%d", c.Name, i)] = res.At(i).Type()
			for j, l := range leaves(res.At(i).Type()) {
				if j >= len(v.L) {
					break
				}
				rk := fmt.Sprintf("X|lastres.%s.%d.%d", c.Name, i, j)
				ex.registerKey(rk, l.Sort)
				prev := ex.heapGet(st, rk, l.Sort)
				ex.setH(st, rk, ex.name("lres", ite(r, v.L[j], prev), l.Sort))
			}
		}
	}
	if res.Len() == 0 {
		return Val{T: res}
	}
	return tupleVal(res, vs)
}

// tryCallClause evaluates a callee clause in the caller's environment; ok=false when it names something that only
// exists inside the callee.
func (ex *Exec) tryCallClause(c *Contract, cl *Clause, env map[string]Val, st, old *State) (g string, ok bool) {
	defer func() {
		if r := recover(); r != nil {
			if ue, isU := r.(unsupportedErr); isU && strings.Contains(ue.msg, "unknown identifier") {
				g, ok = "", false
				return
			}
			if e, isE := r.(error); isE {
				if ue, isU := e.(unsupportedErr); isU && strings.Contains(ue.msg, "unknown identifier") {
					g, ok = "", false
					return
				}
			}
			panic(r)
		}
	}()
	return ex.evalCallClause(c, cl, env, st, old), true
}

// historyCounterKeys lists the ghost keys of the history counters (nspawned, ncalls) named in c's postconditions.
func historyCounterKeys(c *Contract) []string {
	seen := map[string]bool{}
	var out []string
	for _, cl := range c.Ensures {
		ast.Inspect(cl.Expr, func(n ast.Node) bool {
			call, ok := n.(*ast.CallExpr)
			if !ok || len(call.Args) < 1 {
				return true
			}
			id, ok := call.Fun.(*ast.Ident)
			if !ok {
				return true
			}
			k := ""
			switch id.Name {
			case "nspawned":
				k = "X|nspawn." + fnNameArg(call.Args[0])
			case "ncalls":
				k = "X|ncalls." + fnNameArg(call.Args[0])
			}
			if k != "" && !seen[k] {
				seen[k] = true
				out = append(out, k)
			}
			return true
		})
	}
	sortStrings(out)
	return out
}

// applyModifies havocs the locations a callee may write.
func (ex *Exec) applyModifies(c *Contract, env map[string]Val, st *State) {
	if ex.pure > 0 {
		return
	}
	top := ex.freshConst("top", sInt)
	ex.assume(app("<=", st.Top, top))
	st.Top = top
	for _, m := range c.Modifies {
		for _, loc := range ex.resolveModifies(c, m, env, st) {
			if loc.all {
				ex.havocAll(st, "modifies * of "+c.Name)
				continue
			}
			if isHeldKey(loc.key) {
				// a callee returns with the lock set it was entered with (its own lock.balance obligation; A-LOCKBAL for
				// assumed contracts): listing a mutex in modifies lets it lock and unlock, not keep the lock
				ex.used["A-LOCKBAL: lock state is unchanged by code that is havocked (callees return with the lock set they were entered with; proved for units under contract, assumed for external code)"] = true
				continue
			}
			h := ex.heapGet(st, loc.key, loc.sort)
			fresh := ex.freshConst("mod", loc.sort)
			if wf := wfFact(loc.key, fresh, st.Top); wf != "" {
				ex.assume(wf)
			}
			var nh string
			switch {
			case loc.ref == "":
				nh = fresh
			default:
				nh = sto(h, loc.ref, sel(fresh, loc.ref))
			}
			ex.heapSet(st, loc.key, loc.sort, nh)
		}
	}
}

// ghostFramed: ghost variables whose modification must be declared (exclusive-writer facts rely on it).
var ghostFramed = map[string]bool{"X|sendN": true, "X|sendLog": true, "X|sendClock": true, "X|isOpen": true, "X|closeN": true, "X|tcpDialed": true}

type modLoc struct {
	all  bool
	key  string
	sort string
	ref  string // "" = every object (type-level)
}

// resolveModifies turns one modifies item into heap locations.
func (ex *Exec) resolveModifies(c *Contract, item string, env map[string]Val, st *State) []modLoc {
	item = strings.TrimSpace(item)
	if item == "*" {
		return []modLoc{{all: true}}
	}
	if strings.HasPrefix(item, "ghost ") {
		name := strings.TrimSpace(strings.TrimPrefix(item, "ghost "))
		key := "X|" + name
		srt, ok := ex.keySort[key]
		if !ok {
			srt = ex.ghostSort(name)
			ex.registerKey(key, srt)
		}
		return []modLoc{{key: key, sort: srt}}
	}
	if strings.HasPrefix(item, "global ") {
		name := strings.TrimSpace(strings.TrimPrefix(item, "global "))
		g, ok := c.Pkg.Members[name].(*ssa.Global)
		if !ok {
			// pkg.Name: a global of an imported package (by package name)
			if i := strings.Index(name, "."); i > 0 {
				for _, sp := range ex.w.prog.AllPackages() {
					if sp.Pkg.Name() == name[:i] && strings.HasPrefix(sp.Pkg.Path(), ex.w.module) {
						if g2, ok2 := sp.Members[name[i+1:]].(*ssa.Global); ok2 {
							g, ok = g2, true
						}
					}
				}
			}
		}
		if !ok {
			panic(unsupported("modifies global: unknown " + name))
		}
		var out []modLoc
		for _, l := range leaves(g.Type().Underlying().(*types.Pointer).Elem()) {
			out = append(out, modLoc{key: "G|" + g.Pkg.Pkg.Path() + "." + g.Name() + "|" + l.Name, sort: heapKeySort("G", l.Sort, "")})
		}
		return out
	}
	n := 0
	ce := &cenv{ex: ex, pkg: c.Pkg, vars: env, st: st, old: st, nq: &n}
	if ex.callerFrame != nil {
		ce.fr = ex.callerFrame
		ce.blk = ex.callerFrame.curBlk
	}
	star := false
	if strings.HasSuffix(item, ".*") {
		star = true
		item = strings.TrimSuffix(item, ".*")
	}
	if strings.HasPrefix(item, "elemtype(") {
		// every element of every backing array of this element type (type level)
		// elemtype(T) or elemtype(T).field.path (only the leaves under that field)
		closeIdx := strings.Index(item, ")")
		inner := item[len("elemtype("):closeIdx]
		fieldPath := strings.TrimPrefix(item[closeIdx+1:], ".")
		e, err := parser.ParseExpr(inner)
		if err != nil {
			panic(unsupported("modifies: " + item))
		}
		t := ce.resolveType(e)
		if t == nil {
			panic(unsupported("modifies: unknown type in " + item))
		}
		var out []modLoc
		for _, l := range leaves(t) {
			if fieldPath != "" && l.Name != fieldPath && !strings.HasPrefix(l.Name, fieldPath+".") {
				continue
			}
			out = append(out, modLoc{key: "E|" + typeKey(t) + "|" + l.Name, sort: heapKeySort("E", l.Sort, "")})
		}
		if len(out) == 0 {
			panic(unsupported("modifies: no such field in " + item))
		}
		return out
	}
	if strings.HasPrefix(item, "elems(") || strings.HasPrefix(item, "map(") {
		isMap := strings.HasPrefix(item, "map(")
		inner := item[strings.Index(item, "(")+1 : len(item)-1]
		e, err := parser.ParseExpr(inner)
		if err != nil {
			panic(unsupported("modifies: " + item))
		}
		ex.pure++
		v := ce.eval(e)
		ex.pure--
		var out []modLoc
		if isMap {
			mt := v.T.Underlying().(*types.Map)
			ks := mapKeySort(mt)
			out = append(out, modLoc{key: "MH|" + typeKey(mt), sort: heapKeySort("MH", "", ks), ref: v.L[0]})
			for _, l := range leaves(mt.Elem()) {
				out = append(out, modLoc{key: "MV|" + typeKey(mt) + "|" + l.Name, sort: heapKeySort("MV", l.Sort, ks), ref: v.L[0]})
			}
			return out
		}
		et := sliceElemType(v.T)
		for _, l := range leaves(et) {
			out = append(out, modLoc{key: "E|" + typeKey(et) + "|" + l.Name, sort: heapKeySort("E", l.Sort, ""), ref: v.L[0]})
		}
		return out
	}
	e, err := parser.ParseExpr(item)
	if err != nil {
		panic(unsupported("modifies: cannot parse " + item))
	}
	// type-level: T or T.f.g
	chain := selectorChain(e)
	if chain != nil {
		if _, isVar := env[chain[0]]; !isVar {
			var t types.Type
			rest := chain[1:]
			if t = ce.resolveType(&ast.Ident{Name: chain[0]}); t == nil && len(chain) >= 2 {
				t = ce.resolveType(&ast.SelectorExpr{X: &ast.Ident{Name: chain[0]}, Sel: &ast.Ident{Name: chain[1]}})
				rest = chain[2:]
			}
			if t != nil {
				prefix := strings.Join(rest, ".")
				var out []modLoc
				kind := "F"
				if !isStructType(t) {
					kind = "C"
				}
				for _, l := range leaves(t) {
					if prefix == "" || l.Name == prefix || strings.HasPrefix(l.Name, prefix+".") {
						out = append(out, modLoc{key: kind + "|" + typeKey(t) + "|" + l.Name, sort: heapKeySort(kind, l.Sort, "")})
					}
				}
				if len(out) == 0 {
					panic(unsupported("modifies: no field " + prefix + " in " + t.String()))
				}
				return out
			}
		}
	}
	// object-level
	ex.pure++
	defer func() { ex.pure-- }()
	var p Val
	if star {
		p = ce.eval(e)
	} else if se, ok := e.(*ast.StarExpr); ok {
		p = ce.eval(se.X)
	} else {
		p = ce.evalAddr(e)
	}
	var out []modLoc
	for _, a := range ex.addrLeaves(p) {
		if len(a.idx) != 1 {
			panic(unsupported("modifies: location kind in " + item))
		}
		out = append(out, modLoc{key: a.key, sort: a.sort, ref: a.idx[0]})
	}
	return out
}

func selectorChain(e ast.Expr) []string {
	switch x := e.(type) {
	case *ast.Ident:
		return []string{x.Name}
	case *ast.SelectorExpr:
		c := selectorChain(x.X)
		if c == nil {
			return nil
		}
		return append(c, x.Sel.Name)
	}
	return nil
}

// checkPost raises the postcondition and frame obligations at a return site of the unit.
func (fr *frame) checkPost(ret *ssa.Return, vals []Val, st *State, reach string) {
	ex := fr.ex
	if fr.c == nil {
		return
	}
	extra := map[string]Val{}
	res := fr.fn.Signature.Results()
	for i, v := range vals {
		extra[fmt.Sprintf("ret%d", i)] = v
		if n := res.At(i).Name(); n != "" && n != "_" {
			extra[n] = v
		}
	}
	for _, cl := range fr.c.Ensures {
		g := fr.evalClause(cl, nil, st, extra)
		ex.oblige(cl.Label, "ensures", cl.Props, imp(reach, g), cl.Pos, cl.Text)
	}
	for _, ie := range fr.c.IfaceEnsures {
		// behavioural subtyping: the interface-protocol postcondition, read with the interface method's parameter names
		ext := map[string]Val{}
		for k, v := range extra {
			ext[k] = v
		}
		for k, n := range ie.Params {
			if k < len(fr.args) && n != "" && n != "_" {
				ext[n] = fr.args[k]
			}
		}
		saved := fr.c
		tmp := *fr.c
		tmp.Pkg = ie.From.Pkg
		fr.c = &tmp
		g := fr.evalClause(ie.Cl, nil, st, ext)
		fr.c = saved
		ex.oblige("iface."+ie.From.Name+"."+ie.Cl.Label, "ensures", ie.Cl.Props, imp(reach, g), ie.Cl.Pos, "(inherited from iface "+ie.From.Name+") "+ie.Cl.Text)
	}
	for _, cl := range fr.c.Lemmas {
		// a lemma is a closed formula over its own quantified variables: proved without any program context
		g := fr.evalClause(cl, nil, st, extra)
		ex.oblige(cl.Label, "ensures", cl.Props, g, cl.Pos, cl.Text)
	}
	for _, cl := range fr.c.Covers {
		g := fr.evalClause(cl, nil, st, extra)
		ex.coverAcc[cl.Label] = append(ex.coverAcc[cl.Label], and(reach, g))
	}
	if fr.c.HasMod {
		fr.checkFrame(st, reach)
	}
	// lock balance: the function returns with exactly the locks it was entered with (locks of objects it allocated
	// itself are released). A lock leaked on some path blocks every later user of the mutex for ever.
	var gs []string
	seenLock := map[string]bool{}
	for _, p := range ex.lockSites {
		// quantifier-free: only the mutexes this unit itself locks or unlocks can differ (callees are balanced)
		key := fmt.Sprint(p.L, ptrInfoOf(p).Kind, typeKey(ptrInfoOf(p).Root), ptrInfoOf(p).Path)
		if seenLock[key] {
			continue
		}
		seenLock[key] = true
		fin := ex.load(st, p).L[0]
		ini := ex.load(fr.entry, p).L[0]
		gs = append(gs, ite(app("<=", p.L[0], "top!0"), eq(fin, ini), not(fin)))
	}
	if len(gs) > 0 {
		props := append([]string{}, ex.unit.SafetyProps...)
		if !hasProp(props, "C14") {
			props = append(props, "C14")
		}
		ex.oblige("lock.balance", "ensures", props, imp(reach, and(gs...)), fr.c.Pos, "the function returns with exactly the locks it was entered with")
	}
}

// checkFrame proves that nothing outside the modifies clause changed.
func (fr *frame) checkFrame(st *State, reach string) {
	ex := fr.ex
	goals := fr.frameGoals(st, nil)
	if len(goals) == 0 {
		return
	}
	ex.oblige("frame", "frame", nil, imp(reach, and(goals...)), fr.c.Pos, "modifies "+strings.Join(fr.c.Modifies, ", "))
}

// frameGoals returns, per heap key that differs from the pre-state, the formula stating that
// only locations allowed by the modifies clause changed. only restricts the keys considered.
func (fr *frame) frameGoals(st *State, only map[string]bool) []string {
	ex := fr.ex
	if ex.callerFrame == nil {
		ex.callerFrame = fr
		defer func() { ex.callerFrame = nil }()
	}
	env := map[string]Val{}
	for i, p := range fr.fn.Params {
		env[p.Name()] = fr.args[i]
	}
	allowed := map[string][]string{} // key → refs ("" = all)
	heapAll := false
	for _, m := range fr.c.Modifies {
		for _, loc := range ex.resolveModifies(fr.c, m, env, fr.entry) {
			if loc.all {
				heapAll = true // "*" covers the whole heap; framed ghost variables must still be listed
				continue
			}
			allowed[loc.key] = append(allowed[loc.key], loc.ref)
		}
	}
	keys := make([]string, 0, len(ex.keySort))
	for k := range ex.keySort {
		if only != nil && !only[k] {
			continue
		}
		keys = append(keys, k)
	}
	sortStrings(keys)
	var goals []string
	for _, k := range keys {
		kind := keyKind(k)
		if kind == "B" {
			continue
		}
		if kind == "X" && !ghostFramed[k] {
			continue
		}
		if heapAll && kind != "X" {
			continue
		}
		fin, ok := st.H[k]
		init := ex.defaultTerm(k, ex.baseInit)
		if !ok {
			if st.Base == ex.baseInit {
				continue
			}
			fin = ex.defaultTerm(k, st.Base)
		}
		if fin == init {
			continue
		}
		refs := allowed[k]
		typeLevel := false
		for _, r := range refs {
			if r == "" {
				typeLevel = true
			}
		}
		if typeLevel {
			continue
		}
		if kind == "G" || kind == "X" {
			goals = append(goals, eq(fin, init))
			continue
		}
		var ex2 []string
		for _, r := range refs {
			ex2 = append(ex2, not(eq("r!f", r)))
		}
		cond := and(append([]string{app("<=", "1", "r!f"), app("<=", "r!f", "top!0")}, ex2...)...)
		if strings.Contains(fin, "(ite ") {
			goals = append(goals, "(forall ((r!f Int)) "+imp(cond, eq(sel(fin, "r!f"), sel(init, "r!f")))+")")
		} else {
			goals = append(goals, "(forall ((r!f Int)) (! "+imp(cond, eq(sel(fin, "r!f"), sel(init, "r!f")))+" :pattern ("+sel(fin, "r!f")+")))")
		}
	}
	return goals
}

// callSiteOrdinal: the 1-based position, in source order, of instr among the call sites of the function or method
// called name in fn.
func callSiteOrdinal(fn *ssa.Function, instr ssa.Instruction, name string) int {
	var ps []token.Pos
	for _, b := range fn.Blocks {
		for _, ins := range b.Instrs {
			ci, ok := ins.(ssa.CallInstruction)
			if !ok {
				continue
			}
			cc := ci.Common()
			n := ""
			if cc.IsInvoke() {
				n = cc.Method.Name()
			} else if f := cc.StaticCallee(); f != nil {
				n = f.Name()
			}
			if n == name {
				ps = append(ps, ins.Pos())
			}
		}
	}
	sort.Slice(ps, func(i, j int) bool { return ps[i] < ps[j] })
	for i, p := range ps {
		if p == instr.Pos() {
			return i + 1
		}
	}
	return 0
}
