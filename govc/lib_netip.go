package main

import (
	"go/types"
)

// Model of net/netip.Addr: (hi, lo, z) with z = 0 invalid, 4 IPv4, 6 IPv6 without zone, >6 IPv6 with a zone.
// IPv4 addresses are stored as ::ffff:a.b.c.d in (hi, lo) exactly like the real implementation.

const v4prefix = "281470681743360" // 0xffff00000000

func byteOf(x string, shift uint) string { // (x >> shift) & 0xff
	if shift == 0 {
		return app("mod", x, "256")
	}
	return app("mod", app("div", x, pow2(shift)), "256")
}

func (ex *Exec) byteKey() (string, string) {
	k := "E|" + typeKey(types.Typ[types.Byte]) + "|"
	intLeafRange[k] = [2]string{"0", "255"}
	return k, heapKeySort("E", sInt, "")
}

// beN reads n big-endian bytes starting at relative index i of slice s.
func (ex *Exec) beN(st *State, s Val, i string, n int) string {
	key, srt := ex.byteKey()
	h := ex.heapGet(st, key, srt)
	t := "0"
	for k := 0; k < n; k++ {
		b := sel(h, s.L[0], at(s.L[1], addc(i, int64(k))))
		if k == 0 {
			t = b
		} else {
			t = app("+", app("*", "256", t), b)
		}
	}
	return t
}

func addrVal(hi, lo, z string) Val {
	return Val{T: netipAddrT, L: []string{hi, lo, z}}
}

var netipAddrT, netipAddrPortT types.Type

func (ex *Exec) initNetipTypes() {
	if netipAddrT != nil {
		return
	}
	p := ex.w.pkgs["net/netip"]
	if p == nil {
		return
	}
	netipAddrT = p.Pkg.Scope().Lookup("Addr").Type()
	netipAddrPortT = p.Pkg.Scope().Lookup("AddrPort").Type()
}

func (ex *Exec) addrFromSlice(st *State, s Val) (Val, string) {
	ex.initNetipTypes()
	is4 := eq(s.L[2], "4")
	is16 := eq(s.L[2], "16")
	hi := ite(is16, ex.beN(st, s, "0", 8), "0")
	lo := ite(is4, app("+", v4prefix, ex.beN(st, s, "0", 4)), ite(is16, ex.beN(st, s, "8", 8), "0"))
	z := ite(is4, "4", ite(is16, "6", "0"))
	a := addrVal(hi, lo, z)
	a = ex.nameVal("addr", a)
	return a, or(is4, is16)
}

func is4in6(a Val) string {
	return and(app(">=", a.L[2], "6"), eq(a.L[0], "0"), app("<=", "281470681743360", a.L[1]), app("<=", a.L[1], "281474976710655"))
}

func unmap(a Val) Val {
	return Val{T: a.T, L: []string{a.L[0], a.L[1], ite(is4in6(a), "4", a.L[2])}}
}

// addrAsSlice allocates the byte slice returned by Addr.AsSlice. The bytes are fresh constants tied to hi/lo by
// their defining sums (friendlier to the solvers than div/mod extraction).
func (ex *Exec) addrAsSlice(st *State, a Val) Val {
	key, srt := ex.byteKey()
	r := ex.alloc(st)
	h := ex.heapGet(st, key, srt)
	is4 := eq(a.L[2], "4")
	inval := eq(a.L[2], "0")
	if ex.pure > 0 {
		zero := "((as const (Array Int Int)) 0)"
		row4 := zero
		for i := 0; i < 4; i++ {
			row4 = sto(row4, num(int64(i)), byteOf(a.L[1], uint(8*(3-i))))
		}
		row16 := zero
		for i := 0; i < 8; i++ {
			row16 = sto(row16, num(int64(i)), byteOf(a.L[0], uint(8*(7-i))))
		}
		for i := 8; i < 16; i++ {
			row16 = sto(row16, num(int64(i)), byteOf(a.L[1], uint(8*(15-i))))
		}
		ex.heapSet(st, key, srt, sto(h, r, ite(is4, row4, row16)))
	} else {
		var bs []string
		var rng []string
		for i := 0; i < 16; i++ {
			b := ex.freshConst("ab", sInt)
			bs = append(bs, b)
			rng = append(rng, app("<=", "0", b), app("<=", b, "255"))
		}
		ex.assume(and(rng...))
		sum := func(xs []string) string {
			t := xs[0]
			for _, x := range xs[1:] {
				t = app("+", app("*", "256", t), x)
			}
			return t
		}
		// v4: the four bytes are the low 32 bits of lo; v6: hi and lo
		ex.assume(imp(is4, eq(app("mod", a.L[1], "4294967296"), sum(bs[0:4]))))
		ex.assume(imp(not(is4), and(eq(a.L[0], sum(bs[0:8])), eq(a.L[1], sum(bs[8:16])))))
		row := "((as const (Array Int Int)) 0)"
		for i := 0; i < 16; i++ {
			row = sto(row, num(int64(i)), bs[i])
		}
		ex.heapSet(st, key, srt, sto(h, r, row))
	}
	n := ite(inval, "0", ite(is4, "4", "16"))
	return sliceVal(types.NewSlice(types.Typ[types.Byte]), ite(inval, "0", r), "0", n, n)
}

func init() {
	reg("net/netip.AddrFromSlice", func(c *callCtx) Val {
		a, ok := c.ex.addrFromSlice(c.st, c.args[0])
		z := zeroVal(a.T)
		for i := range a.L {
			a.L[i] = ite(ok, a.L[i], z.L[i])
		}
		return Val{L: append(append([]string{}, a.L...), ok)}
	})
	reg("(net/netip.Addr).Unmap", func(c *callCtx) Val { return unmap(c.args[0]) })
	reg("(net/netip.Addr).Is4", func(c *callCtx) Val { return boolVal(eq(c.args[0].L[2], "4")) })
	reg("(net/netip.Addr).Is6", func(c *callCtx) Val { return boolVal(app(">=", c.args[0].L[2], "6")) })
	reg("(net/netip.Addr).Is4In6", func(c *callCtx) Val { return boolVal(is4in6(c.args[0])) })
	reg("(net/netip.Addr).IsValid", func(c *callCtx) Val { return boolVal(not(eq(c.args[0].L[2], "0"))) })
	reg("(net/netip.Addr).Compare", func(c *callCtx) Val {
		ex := c.ex
		a, b := c.args[0], c.args[1]
		ex.declareFun("netip.less", []string{sInt, sInt, sInt, sInt, sInt, sInt}, sBool)
		same := and(eq(a.L[0], b.L[0]), eq(a.L[1], b.L[1]), eq(a.L[2], b.L[2]))
		lt := app("netip.less", a.L[0], a.L[1], a.L[2], b.L[0], b.L[1], b.L[2])
		return intVal(ite(same, "0", ite(lt, "(- 1)", "1")))
	})
	reg("(net/netip.Addr).AsSlice", func(c *callCtx) Val { return c.ex.addrAsSlice(c.st, c.args[0]) })
	reg("net/netip.AddrPortFrom", func(c *callCtx) Val {
		a := c.args[0]
		return Val{L: []string{a.L[0], a.L[1], a.L[2], c.args[1].L[0]}}
	})
	reg("(net/netip.AddrPort).Addr", func(c *callCtx) Val { return Val{L: c.args[0].L[:3]} })
	reg("(net/netip.AddrPort).Port", func(c *callCtx) Val { return Val{L: c.args[0].L[3:4]} })
	reg("(net/netip.AddrPort).IsValid", func(c *callCtx) Val { return boolVal(not(eq(c.args[0].L[2], "0"))) })
	addrPortOf := func(c *callCtx, ipField, portField int) Val {
		// (*net.UDPAddr / *net.TCPAddr).AddrPort: address from the IP bytes (zone ignored), port truncated to 16 bits
		ex := c.ex
		p := c.args[0]
		pi := ptrInfoOf(p)
		mk := func(f int, t types.Type) Val {
			np := *pi
			np.Path = append(append([]int{}, pi.Path...), f)
			return ex.load(c.st, Val{T: types.NewPointer(t), L: p.L, P: &np})
		}
		st := derefType(p.T).Underlying().(*types.Struct)
		ip := mk(ipField, st.Field(ipField).Type())
		port := mk(portField, st.Field(portField).Type())
		a, ok := ex.addrFromSlice(c.st, ip)
		z := zeroVal(a.T)
		for i := range a.L {
			a.L[i] = ite(ok, a.L[i], z.L[i])
		}
		ex.used["libspec: net.{UDP,TCP}Addr.AddrPort ignores the zone"] = true
		return Val{L: []string{a.L[0], a.L[1], a.L[2], app("mod", port.L[0], "65536")}}
	}
	reg("(*net.UDPAddr).AddrPort", func(c *callCtx) Val { return addrPortOf(c, 0, 1) })
	reg("(*net.TCPAddr).AddrPort", func(c *callCtx) Val { return addrPortOf(c, 0, 1) })
}
