#!/usr/bin/env python3
"""keepseed.py <src-dir> <seed-id> <property> <needs> <caught-by>  — files a confirmed seeded change under /verif/seeded/<seed-id>/"""
import sys, os, shutil, json, subprocess
src, sid, prop, needs, caught = sys.argv[1:6]
dst = "/verif/seeded/" + sid
os.makedirs(dst, exist_ok=True)
shutil.copy(src + "/patch.diff", dst + "/patch.diff")
shutil.copy(src + "/demo_test.go", dst + "/demo_test.go.txt")
if os.path.exists(src + "/notes.md"):
    shutil.copy(src + "/notes.md", dst + "/notes.md")
head = subprocess.run(["git", "-C", "/repo", "log", "--format=%h", "-n1"], capture_output=True, text=True).stdout.strip()
meta = {
    "property": prop,
    "breaks": open(src + "/notes.md").read().split("\n")[0][:300] if os.path.exists(src + "/notes.md") else "",
    "needs_to_manifest": needs,
    "applies_to_repo_commit": head,
    "confirmed_by": "tools/seedtest.sh: scratch worktree of /repo; `go build ./...` and `go test -vet=off -count=1 ./...` pass with the patch; demo test (copied into the package named in its header) fails with the patch and passes without it",
    "check_run": "git -C /repo apply patch.diff; ./check %s quick; git -C /repo checkout -- ." % prop,
    "caught_by": caught,
}
json.dump(meta, open(dst + "/meta.json", "w"), indent=1)
print("kept", dst)
