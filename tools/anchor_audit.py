#!/usr/bin/env python3
"""anchor_audit.py — per property, the functions under contract that live in one of the property's anchor files
(properties.jsonl: anchors.files) but are NOT in the closure of that property's check (evidence/<id>.json of the last run).
Not part of a check: most pairs are irrelevant (Close for C01, say) and the list needs judgement; see DESIGN §12.16."""
import json, re, subprocess, os
units = [l.strip() for l in subprocess.run(['/verif/bin/govc', 'units'], capture_output=True, text=True).stdout.split('\n')
         if l.strip() and not l.startswith('WARNING')]
def unit_file(u):
    pkg, rest = u.split('.', 1)
    m = re.match(r'\(\*?(\w+)\)\.(\w+)', rest)
    d = '/repo/' + pkg
    if not os.path.isdir(d):
        return None
    name = (m.group(2) if m else rest.split('$')[0].split('[')[0])
    recv = m.group(1) if m else None
    for f in sorted(os.listdir(d)):
        if not f.endswith('.go') or f.endswith('_test.go') or f.startswith('zz_') or 'windows' in f or 'darwin' in f:
            continue
        src = open(d + '/' + f).read()
        pat = r'^func \(\w+ \*?%s(\[\w+\])?\) %s\(' % (recv, name) if recv else r'^func %s[\[(]' % name
        if re.search(pat, src, re.M):
            return pkg + '/' + f
    return None
uf = {u: unit_file(u) for u in units}
for l in open('/verif/properties.jsonl'):
    d = json.loads(l); p = d['id']
    ev = '/verif/evidence/%s.json' % p
    if not os.path.exists(ev):
        continue
    s = open(ev).read()
    missing = [u for u, f in uf.items() if f in d['anchors']['files'] and u not in s]
    print(p, len(missing), missing)
