#!/bin/bash
# seedtest.sh <seed-dir> <property>
# Confirms a seeded change independently: builds + existing suite pass with the patch, the demonstration fails with it
# and passes without it (in a scratch worktree), then runs ./check <property> against /repo with the patch applied.
set -u
d="$1"; prop="$2"
export GOFLAGS=-mod=mod GOPROXY=off
wt=/tmp/seedchk.$$
git -C /repo worktree add -q --detach "$wt" HEAD || exit 2
trap 'git -C /repo worktree remove --force "$wt" >/dev/null 2>&1' EXIT
place=$(grep -m1 -o 'place in: *[a-z/]*' "$d/demo_test.go" | sed 's/place in: *//; s#/$##')
[ -z "$place" ] && { echo "no place-in header"; exit 2; }
res() { echo "$1: $2"; }
( cd "$wt" && git apply "$d/patch.diff" ) || { res apply FAILED; exit 3; }
( cd "$wt" && go build ./... ) >/dev/null 2>&1 && res build-with-patch ok || res build-with-patch FAILED
( cd "$wt" && go test -vet=off -count=1 ./... ) >/tmp/seedchk.suite.$$ 2>&1 && res suite-with-patch pass || { res suite-with-patch FAIL; tail -5 /tmp/seedchk.suite.$$; }
cp "$d/demo_test.go" "$wt/$place/zz_seed_demo_test.go"
( cd "$wt" && go test -vet=off -count=1 -run 'Seed|C0|C1|C2|Replay|Test' ./$place ) >/tmp/seedchk.demo1.$$ 2>&1 && res demo-with-patch "PASS (unexpected)" || res demo-with-patch "fails (expected)"
( cd "$wt" && git checkout -q -- . )
( cd "$wt" && go test -vet=off -count=1 ./$place ) >/tmp/seedchk.demo2.$$ 2>&1 && res demo-without-patch "passes (expected)" || { res demo-without-patch "FAILS (unexpected)"; tail -5 /tmp/seedchk.demo2.$$; }
rm -f /tmp/seedchk.*.$$
if [ -n "${SEED_USE_WT:-}" ]; then
  # parallel-friendly variant: the check runs against the scratch worktree (GOVC_REPO), evidence untouched
  ( cd "$wt" && git apply "$d/patch.diff" ) || exit 3
  ( cd /verif && GOVC_REPO="$wt" GOVC_NOEVIDENCE=1 ./bin/govc check "$prop" quick ) > /tmp/seedchk.check.$$ 2>&1; rc=$?
else
  # the check on /repo itself
  if [ -n "$(git -C /repo status --porcelain)" ]; then echo "/repo not clean"; exit 4; fi
  git -C /repo apply "$d/patch.diff" || exit 3
  ( cd /verif && ./check "$prop" quick ) > /tmp/seedchk.check.$$ 2>&1; rc=$?
  git -C /repo checkout -- .
fi
grep -c '^VIOLATION' /tmp/seedchk.check.$$ | sed 's/^/violations: /'
grep '^VIOLATION\|^property' /tmp/seedchk.check.$$ | sed 's#replay=/tmp/[^/]*/#replay=#' | head -8
rm -f /tmp/seedchk.check.$$
echo "check-exit: $rc"
