#!/usr/bin/env python3
"""Generates /verif/MANIFEST.json from the table below (kept here so that claims and reasons live in one place)."""
import json, subprocess

PROOF_NOTE = ("Trusted base: SMT solvers (z3 4.8.12, z3 5.1.0, cvc5 1.0.3), govc's own SSA-to-SMT translation (mitigated by must-fail "
              "mutants and replays), go/ssa, int/int64 arithmetic treated as mathematical, floating point treated as reals, "
              "assumed library contracts listed per run in evidence.coverage.trusted_base (gopacket outer decoder, IPv6 decoder, "
              "x/net icmp.ParseMessage, errgroup/WaitGroup join, A-LOG, A-EXTERR, A-CLOCK).")

claims = {
 "C01": ("proof", "Soundness of reply attribution as machine-checked postconditions of the four drivers' handleProbeLayers against byte-level oracles for the quoted packet (addresses, ports, identifiers with full-width equality, TTL sent and in range), plus the engines' slot invariant (slot k only holds a delivered reply with TTL k) carried to the hop list. For all packets and driver states, no bound.", "§6 C01"),
 "C02": ("proof", "Completeness clauses on the same units: a genuine reply in the enumerated plain wire form (no IP options in the quote, consistent quoted length, complete 8-byte transport header) is accepted with the right TTL, strict and relaxed modes; GetICMPInfo's decoding of the quote is proved from gopacket's IPv4 source. The real-time clause (inside the listening window) is not decided.", "§6 C02"),
 "C03": ("proof", "Shape of the hop list as postconditions of clipResults, ToHops and both engines (serial loop invariants; parallel monitor invariant + join), for every first/last TTL pair and every table content.", "§6 C03"),
 "C04": ("proof", "IsDest is characterised exactly per driver (iff proof-of-arrival form and responder == target), GetDestinationHop returns the first destination hop; for all packets.", "§6 C04"),
 "C05": ("proof", "RTT = clock at acceptance minus the stamp recorded for the matched probe, non-negative under a monotone ghost clock, stamps never belong to another probe (identifier round trip), first accepted reply kept by both engines (serial: two-state step clause; parallel: writeProbe rule), ms conversion over reals. The 'within one poll interval' clause is not decided.", "§6 C05"),
 "C07": ("proof", "writeProbe's postcondition is the two-rule transition function of the merge relative to the state at lock acquisition; the monitor invariant is assumed at Lock and proved at Unlock, hence holds under every interleaving; receiver forwards every validated reply; sender's frame excludes the table.", "§6 C07"),
 "C09": ("proof", "No-panic obligations on every index/slice/nil/assert/division of the receive path (frame parser, IPv4 decoder from gopacket source, drivers, engines) for arbitrary bytes, and error classification: every error out of the receive path is retryable except the SACK no-SACK-block case.", "§6 C09"),
 "C06": ("proof", "Probe emission: per driver, SendProbe's postcondition pins what is handed to the serializer (TTL/hop-limit field = probed TTL, protocol, ports, flags, per-probe identifier scheme, FixLengths and ComputeChecksums set, pseudo-header registered), stores the probe under that identifier once (duplicates refused) and writes exactly once; identifier injectivity lemmas; both engines emit TTLs in increasing order from the first TTL, at most once each, spaced by SendDelay on the ghost clock (sender closure exclusive writer, transferred at the join). Checksum/length arithmetic (gopacket) and 'none after the destination was seen' in the parallel engine are not decided.", "§6 C06"),
 "C11": ("proof", "Allocator contracts (AllocPacketID, nextEchoID) with the disjointness lemma for identifier windows while fewer than 65536 identifiers are live, and per-protocol isolation lemmas proved over the same specification functions C01 uses: a packet genuine for two runs forces them to share their identity (echo id / flow / 4-tuple / ISN window). With C01 soundness this gives isolation for every shared-wire interleaving. Atomics are trusted linearizable; SACK relaxed mode assumes kernel ISNs of concurrent connections differ by more than 255.", "§6 C11"),
 "C12": ("proof", "One bit-vector lemma per installed cBPF program, read mechanically from the source: for all frames, all frame lengths and all address/port configurations the program accepts iff the reference predicate transcribed from the statement holds (TCP tuple, SYN-ACK, ICMP, drop-all); filter selection and the non-IPv4 error path as ordinary contracts. 'Filter never hides a matchable reply' follows by composing these with the C01 soundness clauses under the assumed decoder contract; that composition is argued in DESIGN.md, not machine-checked.", "§6 C12"),
 "C16": ("proof", "Every relation of the statement except JSON round-trip as postconditions of normalize* / calculateJitter over real arithmetic, for all sizes (loop invariants). The bound jitter <= max-min is proved in universally quantified ghost form (instantiation step by hand); float rounding, identifier freshness and JSON encoding are not decided.", "§6 C16"),
 "C19": ("proof", "TTL bounds outside 1..255 and inverted bounds rejected (after the fix), port range, protocol and TCP method dispatch, HTTP parameter parsing verbatim with exact defaults, engines cover exactly first..last TTL, SACK table sized for the extreme 255, no-panic obligations along the chain. DNS resolution of non-literal targets is external.", "§6 C19"),
 "C20": ("proof", "performTCPFallback with the three implementations as abstract function values and call counters: which are called, how often, whose result is returned, that a non-capability SACK failure is returned wrapped and never masked; end-to-end probes force SYN; the only non-retryable receive error of the SACK driver is NotSupportedError for an ACK without SACK blocks on the probed connection. Entry-point provenance of NotSupportedError (dial / handshake) is not yet under contract.", "§6 C20"),
 "C10": ("proof", "Handle typestate as ghost state (isOpen / closeN per OS-backed handle): every constructor (net.Dial, net.Listen, Dialer.DialContext, NewSourceSink on top of the two trusted socket constructors) opens, every Close requires the handle to be open (double close or close of a never-opened handle fails the Close precondition) and every Read/Write/SetPacketFilter/SetReadDeadline requires it open (use after close). Each protocol entry point (ICMP, UDP, TCP SYN, SACK, and runTracerouteOnce / runE2eProbeOnce above them) has the postconditions: error implies no result; every handle not open before the call is not open after it (all handles opened are closed, on every success and failure path, for every injection point because constructor/IO results are unconstrained); handles open before are untouched; handles are open at the engine call. Engines: error implies nil result; every goroutine spawned is joined on every path to a return (goroutine.joined). Cause preservation is proved where the statement is checkable on one call: SACK error class is preserved through every wrapping layer (C20.sack.*), send/receive errors carry no foreign repo error types. Not covered: that the *text* of the underlying cause survives (fmt verbs other than %w are not interpreted beyond the chain relation); Windows-only paths (MustClosePort double close of the reserved port is outside the linux build that is verified).", "§6 C10"),
 "C15": ("proof", "runTracerouteMulti and its three goroutine bodies under a monitor with auxiliary counters owned by the mutex: every run goroutine appends exactly one run or exactly one error, every probe goroutine appends exactly one RTT sample (0 when it failed) plus its error, the public-IP goroutine touches neither (it does not even capture the error list); each is a guarantee proved at the Unlock relative to the state at Lock, so it holds for every interleaving and completion order. The monitor invariant (len(runs)+runFails == runsDone, len(samples) == e2eDone, len(errors) == runFails+e2eFails, all errors non-nil) is proved at every Unlock and before the first spawn; at wg.Wait() the counters equal the number of goroutines started (each closure is proved to contribute exactly once). Postconditions: error implies no result; success implies exactly TracerouteQueries runs and E2eQueries samples and zero failures; an error is returned iff at least one goroutine failed and it wraps every collected failure; goroutines are joined on every path. Trusted: WaitGroup Add/Done/Wait protocol (A-JOIN), errors.Join membership. Not covered by a machine-checked contract: the thin wrapper RunTraceroute (propagates the error, then calls Normalize / RemovePrivateHops / EnrichWithReverseDns whose own contracts are C16/C17/C18).", "§6 C15"),
 "C17": ("proof", "RemovePrivateHops postconditions over the whole document against an independent range predicate, with net.IP.IsPrivate / To4 / isZeros executed from the toolchain's source; flag plumbing in the HTTP parameter parser.", "§6 C17"),
}

not_applicable = {
 "C13": "statement is about what Linux kernel routers, sockets and BPF attach do on a real path; no pre/postcondition on Go source can decide it, and the syscall layer is exactly what the library specifications assume",
}

pending = ["C08","C14","C18"]

def main():
    checks=[]
    for pid,(level,text,ref) in sorted(claims.items()):
        checks.append({
            "property_id": pid,
            "quick_cmd": "./check %s quick" % pid,
            "thorough_cmd": "./check %s thorough" % pid,
            "evidence_file": "/verif/evidence/%s.json" % pid,
            "replay_cmd_template": "./check-replay {path}",
            "engine": "govc",
            "level_claimed": {"category": level, "text": text, "design_ref": ref},
            "level_note": PROOF_NOTE,
            "technique": "contract-based deductive verification: VCs generated from go/ssa of the real functions against //@ contracts, discharged by z3/cvc5"
        })
    na=[{"property_id":k,"reason":v} for k,v in sorted(not_applicable.items())]
    for p in pending:
        if p not in claims and p not in not_applicable:
            na.append({"property_id":p,"reason":"not claimed yet: contracts for this property are still being written (see DESIGN.md); no check is registered until its obligations discharge on the unchanged tree"})
    hooks=subprocess.run(["git","-C","/repo","log","--format=%h %s"],capture_output=True,text=True).stdout.strip().split("\n")
    src=[l.split()[0] for l in hooks if "verif hooks:" in l]
    m={
     "version":1,
     "setup_cmd":"./build.sh",
     "hooks":{"guard":"verif","enable":"-tags verif: adds <pkg>/zz_contracts_verif.go (//@ contract comments + pure spec helper functions); no existing line is edited","baseline_off_cmd":"cd /repo && go test -vet=off -count=1 -timeout 25m ./...","source_commits":src,"add_only":True},
     "engines":[{"name":"govc","path":"/verif/govc","serves_properties":sorted(claims.keys()),"kind_free_text":"contract-based deductive verifier for Go written for this task: symbolic execution of go/ssa (loop cut at invariants, Burstall-Bornat heap, modular calls by contract, monitor invariants, structured join), one SMT-LIB query per obligation raced on z3 5.1.0, cvc5 1.0.3, z3 4.8.12"}],
     "checks":checks,
     "not_applicable":na,
     "notes":"Contracts live in /repo under build tag verif; genuine defects found are fixed by 'fix:' commits in /repo and listed in known_findings.txt. See DESIGN.md."
    }
    json.dump(m,open("/verif/MANIFEST.json","w"),indent=1)
    print("checks:",len(checks),"not_applicable:",len(na))
main()
