#!/bin/bash
# benigntest.sh [id ...] — false-alarm corpus: behaviour-preserving refactorings written by independent sub-agents
# (/verif/benign/<id>/patch.diff). Each is applied to a scratch worktree of /repo and EVERY unit is re-verified; any
# refused unit or failing obligation is a false alarm of the machinery. Exit 1 if there is one.
cd /verif
ids=("$@"); if [ ${#ids[@]} -eq 0 ]; then ids=($(ls /verif/benign)); fi
bad=0
for b in "${ids[@]}"; do
  wt=/tmp/govc-benign.$$.$b
  git -C /repo worktree add -q --detach $wt HEAD || exit 2
  if ! (cd $wt && git apply /verif/benign/$b/patch.diff) 2>/dev/null; then echo "$b: patch does not apply (rebase needed)"; git -C /repo worktree remove --force $wt; continue; fi
  GOVC_REPO=$wt /verif/bin/govc verify > /tmp/govc-benign.$$.$b.log 2>&1
  r=$(grep -c '^REFUSED' /tmp/govc-benign.$$.$b.log); f=$(grep -c 'failed=[1-9]' /tmp/govc-benign.$$.$b.log)
  echo "$b: units=$(grep -c 'obligations=' /tmp/govc-benign.$$.$b.log) refused=$r failing_units=$f"
  [ "$r" != "0" -o "$f" != "0" ] && { bad=1; grep '^REFUSED\|failed=[1-9]' /tmp/govc-benign.$$.$b.log | cut -c1-200; }
  rm -f /tmp/govc-benign.$$.$b.log; git -C /repo worktree remove --force $wt
done
exit $bad
