#!/bin/bash
# selftest.sh [seed-id ...] — must-fail corpus: applies every seeded change (or the named ones) to a scratch worktree of
# /repo (never to /repo itself), runs the property's check against it (GOVC_REPO) and expects a VIOLATION (exit 1).
# Prints one line per seed: CAUGHT / MISSED. Exit 1 if any seed is missed. Evidence files are not touched
# (the check is run with GOVC_NOEVIDENCE=1, replays go to a temporary directory).
set -u
cd /verif
wt=/tmp/govc-selftest.$$
git -C /repo worktree add -q --detach "$wt" HEAD || exit 2
trap 'git -C /repo worktree remove --force "$wt" >/dev/null 2>&1' EXIT
seeds=("$@")
if [ ${#seeds[@]} -eq 0 ]; then seeds=($(ls /verif/seeded)); fi
missed=0
for s in "${seeds[@]}"; do
  d=/verif/seeded/$s
  prop=$(python3 -c "import json;print(json.load(open('$d/meta.json'))['property'])")
  ( cd "$wt" && git checkout -q -- . && git apply "$d/patch.diff" ) || { echo "$s: patch does not apply (rebase needed)"; missed=1; continue; }
  out=$(GOVC_REPO="$wt" GOVC_NOEVIDENCE=1 ./bin/govc check "$prop" quick 2>&1); rc=$?
  n=$(echo "$out" | grep -c '^VIOLATION')
  if [ $rc -eq 1 ] && [ "$n" -gt 0 ]; then
    echo "$s: CAUGHT ($n) $(echo "$out" | grep -m1 '^VIOLATION' | sed 's#.*replays/##')"
  else
    echo "$s: MISSED (exit $rc)"; missed=1
  fi
done
( cd "$wt" && git checkout -q -- . )
exit $missed
