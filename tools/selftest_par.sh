#!/bin/bash
# selftest_par.sh [-j N] [seed-id ...] — must-fail corpus, N seeds at a time: every seeded change is applied to its own
# scratch worktree of /repo (never to /repo itself), the property's check is run against it (GOVC_REPO, evidence
# untouched) and a VIOLATION is expected. One line per seed: CAUGHT / MISSED. Exit 1 if any seed is missed.
j=4
if [ "${1:-}" = "-j" ]; then j=$2; shift 2; fi
cd /verif
seeds=("$@")
if [ ${#seeds[@]} -eq 0 ]; then seeds=($(ls /verif/seeded)); fi
one() {
  s=$1
  d=/verif/seeded/$s
  prop=$(python3 -c "import json;print(json.load(open('$d/meta.json'))['property'])")
  wt=/tmp/govc-selftest.$$.$s
  git -C /repo worktree add -q --detach "$wt" HEAD || { echo "$s: worktree failed"; return; }
  if ! ( cd "$wt" && git apply "$d/patch.diff" ) 2>/dev/null; then
    echo "$s: patch does not apply (rebase needed)"
  else
    out=$(GOVC_REPO="$wt" GOVC_NOEVIDENCE=1 /verif/bin/govc check "$prop" quick 2>&1); rc=$?
    n=$(echo "$out" | grep -c '^VIOLATION')
    c=$(echo "$out" | grep '^VIOLATION' | grep -vc 'no-failing-input-found')
    if [ $rc -eq 1 ] && [ "$n" -gt 0 ]; then
      echo "$s: CAUGHT ($n, replay-confirmed $c) $(echo "$out" | grep -m1 '^VIOLATION' | sed 's#.*replays/##')"
    else
      echo "$s: MISSED (exit $rc) $(echo "$out" | tail -1)"
    fi
  fi
  git -C /repo worktree remove --force "$wt" >/dev/null 2>&1
}
export -f one
printf '%s\n' "${seeds[@]}" | xargs -P "$j" -I{} bash -c 'one {}'
